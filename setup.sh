#!/bin/bash
# Build the framework's Python dependency overlay from the offline wheelhouse (no network).
#   /verif/.deps      z3-solver (python API + libz3) for /venv/bin/python (3.12)
#   /verif/.deps_ch   crosshair-tool and its pure-python deps (only used by the C17 bug-hunting side check)
# /venv itself is left untouched; the overlays are put on PYTHONPATH by ./check.
set -e
cd "$(dirname "$0")"
export PIP_NO_INDEX=1 PIP_DISABLE_PIP_VERSION_CHECK=1
WH=/opt/veriftools/wheels
if ! PYTHONPATH=.deps /venv/bin/python -c "import z3; assert z3.get_version_string().startswith('5.')" 2>/dev/null; then
  rm -rf .deps
  /venv/bin/python -m pip install -q --no-index --no-deps --find-links $WH --target .deps z3-solver
fi
if ! PYTHONPATH=.deps:.deps_ch /venv/bin/python -c "import crosshair" 2>/dev/null; then
  rm -rf .deps_ch
  # numpy/scipy must never land in an overlay (they would shadow /venv's); crosshair does not need them
  /venv/bin/python -m pip install -q --no-index --no-deps --find-links $WH --target .deps_ch \
      crosshair-tool typing_inspect typeshed_client mypy_extensions importlib_metadata zipp pygls lsprotocol cattrs attrs packaging typing_extensions 2>/dev/null || echo "setup: crosshair overlay unavailable (C17 side check will be skipped)"
fi
echo "setup ok: z3 $(PYTHONPATH=.deps /venv/bin/python -c 'import z3; print(z3.get_version_string())'), /usr/bin/z3 $(/usr/bin/z3 --version 2>/dev/null | head -c 20), cvc5 $(cvc5 --version 2>/dev/null | head -1 | head -c 40)"
