#!/usr/bin/env python3
"""regenerates /verif/MANIFEST.json from the table below (keeps the file valid against the schema at all times)"""
import json, os
ROOT = os.path.dirname(os.path.dirname(os.path.abspath(__file__)))
TECH = "bounded symbolic execution of the real molgri functions on z3 terms (numpy object arrays), obligations discharged by z3 5.1 / z3 4.8.12 / cvc5 portfolio; counterexamples replayed on the real code"
NOTE_COMMON = ("float modelled by the reals; scipy.sparse / MDAnalysis / Rotation replaced by models that are differentially "
               "self-tested against the real libraries on every run; Qhull/SVD/RNG/I-O are contract stubs; shapes (cell counts, "
               "patterns, storage forms) are enumerated up to the stated bound, values inside a shape are symbolic")
CLAIMED = {
 "C01": ("For every n<=4 (thorough: 5), every symmetric pattern and both storage forms, the solver proves for ALL real energies and "
         "positive V,S,h,D,T: the closed SqRA formula with one-sided cap on the pattern, zeros off it, zero row sums, detailed balance "
         "under the cap, shift invariance and linearity in D. Right level: the property is a universal statement over reals that "
         "sampling cannot settle; the bound is the cell count. Also (the one float effect addressed): whenever the statement's own exponent for an entry lies within [-350, 350] at T in {100, 300, 1000} K, every exponential the CODE evaluates on the way to that entry has its argument in [-700, 700] (no underflow/overflow of a double) -- a refactoring that is an identity over the reals but routes through per-cell Boltzmann weights fails this and the solver's witness is replayed. Repeat call on one object and untouched inputs are obligations too.", "§5 C01"),
 "C05": ("For every n_o<=4 (thorough 5), T in 2..4 (thorough 6) and every symmetric direction-adjacency pattern the solver proves, for ALL "
         "strictly increasing positive radii and ALL positive areas/arcs/angles: every cell volume, every pair's adjacency/border/distance "
         "entry equals the closed form of the statement (zero otherwise), identical stored pattern and entry order of the three matrices, "
         "shell/total volume sums and radial face sums given sum(area)=4*pi, boundary interleaving. The bound is the grid size; "
         "unequal spacing and T>=3 (where index slips show) are inside it. Other PositionGrid objects of the same process (collision twin with other radii under the same name, Cartesian twin under the same names) are built and queried before and after the construction of the grid under test.", "§5 C05"),
 "C12": ("For every trajectory length L<=6 (thorough 9), n<=3 (4) cells, tau<=3 (4), both window modes: ALL trajectories (every cell "
         "sequence and every NaN subset) are covered by one symbolic run per shape; proved: T_ij*s_i = c_ij+c_ji against an independently "
         "written window-count oracle, zero rows for unvisited cells, row sums, range, detailed balance w.r.t. visit counts, reversal "
         "invariance in sliding mode. Uses an assume/guarantee cut at the count matrix (stage 1: counts = oracle; stage 2: normalisation on "
         "fresh integer counts).", "§5 C12"),
 "C13": ("One inductive step from an ARBITRARY valid state (any canonical partition of any subset of n<=4 cells, symbolic n x n original matrix, "
         "current matrix defined by the lumping invariant, before/after a deletion, dense and csr): one real merge_matrix_cells / "
         "delete_rate_cells call with every join family / deletion list in the bound re-establishes the invariant entry-wise (solver, all "
         "real matrices) and returns the specified index list; zero row sums and symmetry preserved. One step covers histories of any "
         "length. SQRA.cut_and_merge runs on symbolic energies, temperature and limits (4 limit combinations). No exception allowed for "
         "in-range arguments. Sparse inputs also with CONCRETE sparsity patterns on the exact-order csr model (rows without stored entries, no stored diagonal; off-diagonal > 0, diagonal < 0), so that code reading the CSR buffers is decided there.", "§5 C13"),
 "C17": ("For every token structure of 1..3 (thorough 4) tokens over the property's alphabet (8 algorithm names, zero, none, None, junk, -3, "
         "empty token, plain and zero-padded numbers) and both roles, the real parser runs with the VALUE of every numeric token symbolic "
         "(0<=n<10^6): on every feasible path the outcome is ValueError or (alg valid for role, N>=1, N=1 iff zero algorithm, N is the number "
         "in the name, bare N>1 gets the role default, given algorithm kept), two numbers / two algorithm tokens are rejected, and re-parsing "
         "alg_N gives the same pair. Any other exception is a violation.", "§5 C17"),
 "C04": ("Qhull is stubbed by its contract; everything molgri does around it is executed for real. Fold harness: for N=2,3 (all antipodally "
         "invariant adjacency patterns) and N=4 (seeded 1/8 of the 4096 patterns in quick, all in thorough) and ALL positive border/distance values, "
         "the folded N x N matrices have empty diagonal, are symmetric, equal ite(A_ij!=0, A_ij, A_{i,j+N}) (adjacent iff some pair of "
         "representatives is), and the three properties share one stored pattern. Assembly harness: the generic pair loop yields symmetric, "
         "empty-diagonal matrices on one pattern for arbitrary callback values (this discharges the contract the fold assumes). Distance harness: for "
         "ALL unit quaternions the sign-folded distance equals acos|p.q|, is symmetric and invariant under q->-q (staged lemmas: norms, Cauchy-Schwarz, "
         "acos axioms). History on one object: the caller rescales, in place, the matrices it was handed and asks again -- same answers. The half-sphere object is built by its real __init__ chain (Qhull's SphericalVoronoi replaced by a stand-in).", "§5 C04"),
 "C02": ("Composed run above the compiled geometry: direction stub -> real position assembly, full-sphere stub -> real antipode fold, both into the "
         "real FullGrid._get_N_N / get_full_* / get_total_volumes. For n_b<=3, n_o<=3, n_t in {2,3} (<=18 cells; thorough <=36), every direction "
         "pattern and every antipodally invariant rotation pattern, and ALL positive geometry values, radii and factors f: every entry of the "
         "three n x n matrices equals the closed form of the statement (position quantity x f / f^2 for same rotation, folded rotation quantity for "
         "same position, zero otherwise), symmetric, empty diagonal, stored entries > 0, identical indices/indptr and coo order for the three, "
         "volume_n = V_pos[n div n_b] * V_rot[n mod n_b] * f^3. Single-shell grids (n_t = 1, incl. a single position) are inside the bound. Histories: get_full_prefactors then the getters again; other FullGrid objects of the same process (another factor f and a colliding radial grid under the same lossy name; a Cartesian twin under the same names) are built and queried before the grid under test exists and again between its construction and its first getter; every path starts from import-time module/class state. Cartesian face areas (cart_surfaces shapes): the real get_cartesian_surfaces / _get_coordinates_of_border_polygons on the real Qhull combinatorics of concrete grids with SYMBOLIC polygon areas: entry (i,j) is the area of the face cells i and j share, hence symmetric, on the adjacency pattern.", "§5 C02"),
 "C19": ("Exhaustive over the size box (n_b,n_o in 1..5, n_t in 1..4; thorough 1..7 / 1..5, plus the non-default algorithms) x both position modes x "
         "five getters: the REAL constructors, name/translation parsers, generators, the size threshold choosing the cell model and the real "
         "MikroVoronoi run; in the default mode the Qhull-backed Voronoi classes are contract stubs with symbolic positive values; in Cartesian mode the position part is concrete and the real Qhull classes run (only the 4-D rotation cells are stubs). On every feasible path each getter returns "
         "the right shape or raises ValueError (Cartesian n_o<3: QhullError allowed). Sizes are enumerated, so the solver's "
         "share is small here (stub values only) -- said plainly in DESIGN; the failing mechanisms are in molgri's Python dispatch, which the run reaches. "
         "Counterexamples are replayed through the public API with real Qhull. Call histories on one object: listed order twice, reversed then listed, forwarded position getters first, borders first, distances first.", "§5 C19"),
 "C10": ("For molecules of 1-2 + 1-4 atoms and 1-4 frames (thorough 3 + 6 atoms, 6 frames), ALL real atom positions, positive masses and an "
         "ARBITRARY symbolic grid array (any positions, any non-zero quaternions): one frame per row in row order, atom order molecule 1 then 2, "
         "molecule 1 unchanged, every atom of molecule 2 at R(q_k)(x0 - c0) + c0 + p_k (so COM at c0 + p_k), the caller's universes untouched; "
         ">= 2 frames exposes state carried between frames. R(q) is proved orthogonal with det 1 for all q != 0 (distance preservation). "
         "TwoMoleculeWriter._center_both_molecules proved to be a pure translation putting both COMs at the origin. Trajectory-as-universe API on a memory-universe model with MDAnalysis' sharing rules: get_pt_as_universe has one frame per row in row order with the prescribed placement, the one-molecule universes are the corresponding atom blocks, and both still hold after the caller edited the derived universes in place. Molecules read through the package's reader (reader shapes): the real OneMoleculeReader on modelled XYZ (1-2 frames) / GRO files with symbolic coordinates, then the real Pseudotrajectory: frame k = molecule 1 centred + molecule 2's centred file geometry rotated and placed; the file-reader model is differentially self-tested against real MDAnalysis readers on real files on every run.", "§5 C10"),
 "C16": ("For every text template in the bound (number; lists/tuples of <=4 (5) numbers in any order; linspace with num 1..5 and default; "
         "range/arange with 1-3 arguments) the template's NUMBERS are symbolic reals: proved for ALL values: result = 10 x intended values "
         "(sorted permutation for lists via counting; closed forms for linspace/arange with the arange length decided by forking, <= 6), rejection "
         "only when a distance is negative, increments = (r_1, positive differences) or rejection exactly when the radii are not strictly "
         "increasing positive, R_k midpoints, R_T, R_1 = 2 r_1, interleaving, include_zero, and the md5 argument is the returned array itself.",
         "§5 C16"),
 "C07": ("Claimed for the half selection of the hypercube algorithms, the double-cover logic and the one-point grids (that the polytope / random generators produce well separated points for every N is a concrete run: outside). For ALL quaternion coordinates (each 0 or |x|>1e-5): q_in_upper_sphere = 'first non-zero "
         "coordinate positive', exactly one of q and -q is canonical; hemisphere_quaternion_set returns, row by row, the representative in the "
         "requested half (N<=2, thorough 3); the real SphereGrid4Dim._gen_grid / gen_grid on an arbitrary canonical unit half grid G (N<=4) yields "
         "[G; -G] in order, only_upper returns exactly G, upper indices 0..N-1, and a row whose length is off 1 is rejected by the norm assertion. "
         "That the concrete generators produce N distinct, well-separated points is a concrete run with nothing to quantify over: outside. History: the canonical-representative helper applied to the double-cover array a grid handed out must leave the grid [G; -G]. Half selection of the hypercube algorithms (halfsel shapes): the real FullDiv/Cube4D _gen_grid, Cube4DPolytope.get_half_of_hypercube, q_in_upper_sphere, which_row_is_k on a polytope stand-in (a subclass of the real class) whose 16 nodes are 8 antipodal pairs, two of them SYMBOLIC unit quaternions with 0..3 leading zeros: rows canonical, nodes of the polytope, pairwise different rotations, [G;-G]; fulldiv: every rotation of the level present. One-point grids through the factory with N in {None,1,2,3} (concrete, judged by the statement).", "§5 C07"),
 "C09": ("For n_b,n_o,n_t in 1..3 (thorough 4) with symbolic direction coordinates, quaternions and radii: the array has n_t*n_o*n_b rows of 7; for a "
         "SYMBOLIC row index n the row equals (r_{(n div n_b) div n_o} * o_{(n div n_b) mod n_o}, q_{n mod n_b}); the position array likewise; the "
         "index helpers equal n div n_b / n mod n_b for symbolic n and for index arrays (each single index, reversed, seeded subset with repeats). "
         "The decomposition back into o/b/t grids (np.unique on rounded float rows) is outside. Other grids of the same process under the same lossy names are built and asked for their arrays before and after the construction of the grid under test. An index-helper result that is no 1-D table (0-d / None) is a structural failure, replayed.", "§5 C09"),
 "C11": ("Claimed for radial, direction, nearest-grid-rotation and index composition; the recovery of the molecule's orientation from atom coordinates is a stub (eigen-decomposition + handedness fix-up: outside) and so is the round "
         "trip. Radial: for n_t in 2..4 (thorough 6), ALL increasing radii and ALL centre-of-mass vectors: the returned index k satisfies "
         "R_{k-1} <= |c| <= R_k with the C05/C16 boundaries AND is a nearest radius (the two coincide), NaN iff |c| > R_T unless outliers are included. "
         "Direction: for n_o in 2..3 (thorough 4), ALL unit direction vectors and ALL c != 0, both metrics: the returned index maximises o_j.c -- by "
         "a chain of small lemmas (norm positive, |u|=1, keys, key order from the path's comparisons, monotone squares, expansion, positive scaling) "
         "each discharged in milliseconds where the direct query is unknown in every solver. Composition through the real get_full_assignments with "
         "n_t=3, n_o=2, n_b in {1,3}: index = (t*n_o+o)*n_b+b, NaN propagates. Frame bookkeeping of the rotation index (frames shapes): the real _get_quaternion_assignments / _get_rotation_matrices / _complex_mdanalysis_func with only the eigen-decomposition (per-frame contract stub), the handedness fix-up and Pool (serial) replaced; symbolic centres of mass decide which frames are outliers. Nearest grid rotation (nearest shapes): for an arbitrary SYMBOLIC unit quaternion as the molecule's rotation and four concrete rotation grids the returned b minimises the angle of the relative rotation (Rotation modelled: as_matrix, from_matrix, magnitude monotone in the trace, as_quat with scipy's sign rule; each fact self-tested against scipy).", "§5 C11"),
 "C20": ("Two families on the real molgri.io code. xvg: EnergyReader.load_energy / _get_column_names / load_single_energy_column run on a file whose "
         "13..15 (thorough ..18) header lines have SYMBOLIC kinds ('#' lines first, at most 13, then '@' lines; which '@' lines are series legends, at "
         "symbolic positions, with symbolic increasing numbers 0..9; also all ten legends), 0..2 data lines with symbolic values; `open` hands out line "
         "objects answering startswith/split symbolically, pandas.read_csv is a model of the keyword semantics the reader uses (skiprows counts "
         "physical lines, full-line comments dropped, header=None, names) differentially self-tested against real pandas every run. Proved on every "
         "feasible path: columns = time column then the legend texts in file order (a header line is a column iff it is a legend), one row per data "
         "line in file order with the exact values, single-column access, same table on a second read. persist: the real GridWriter.__init__/save_* "
         "and GridReader.load_* with npy/npz as the identity (self-tested on real files): all five artefacts read back entry-wise identical in format, "
         "shape, pattern, stored order and value to the grid's getters, also after a second write, and writing leaves the grid untouched. The csv round "
         "trip (pure pandas) and the byte formats are outside. DataFrame.drop_duplicates / reset_index / copy are part of the pandas model (equality of parsed numbers decided by the solver).", "§5 C20"),
 "C14": ("Claimed for the first sentence (the spectral sentence -- ARPACK, sorting, dense agreement -- is outside). One symbolic run end to end above the "
         "compiled geometry: stubs -> real fold + real position assembly -> real FullGrid getters -> real GridWriter.save_* / GridReader.load_* (file "
         "formats modelled as the identity, validated on real files each run) -> real SQRA.get_rate_matrix with symbolic energies, for "
         "(n_b,n_o,n_t) in {(1,2,2),(2,1,2),(3,1,2),(2,2,2),(1,3,2)} (thorough: + 5 larger), all rotation patterns. Assume/guarantee cut at the "
         "SQRA boundary: symmetry of borders and distances, identical pattern and stored order of the three files, positivity are discharged on the "
         "ACTUAL assembled terms; then on fresh positive values in the PRODUCED layout: off-diagonal pattern of Q = saved adjacency, zero row sums, "
         "detailed balance w.r.t. V_i exp(-E_i/RT) under the cap, and pi Q = 0 via flux variables. Proofs after the cut are shared between paths "
         "that produce the same layout.", "§5 C14"),
}
NA = {
 "C03": "Claim is that Qhull's SphericalVoronoi regions/areas are the true nearest-neighbour cells: compiled geometry with no encodable source; a stub would assume the property (the symmetric assembly around it is verified under C04).",
 "C06": "scipy.spatial.Voronoi/ConvexHull are compiled; the one pure-Python kernel (order_points: arccos+sqrt+comparison sort over symbolic coordinates) was probed: 24/39 branch-feasibility queries unknown, 258 s per vertex order for triangles.",
 "C08": "Quantifies over call histories of Qhull+networkx+MT19937 and demands bit-identical floats; the real-number/UF model cannot express bit identity and modelling the RNG as a UF leaves the solver nothing to decide.",
 "C15": "A +-12%/+-30% accuracy band of a convex-hull + Monte-Carlo approximation against the true cell measure: numerical quality of Qhull output, no symbolic formulation.",
 "C18": "A ground fact per subdivision level: one concrete networkx/float-key run with no input to make symbolic; unrolling it into SMT would be a concrete execution in disguise.",
}
PENDING = "check for this property is designed (DESIGN.md §5) but not yet registered in this commit; it is not claimed until its harness passes on the unchanged tree"
ALL = [f"C{i:02d}" for i in range(1, 21)]
checks = []
for pid, (text, ref) in sorted(CLAIMED.items()):
    checks.append({"property_id": pid, "quick_cmd": f"./check {pid} --tier quick", "thorough_cmd": f"./check {pid} --tier thorough",
                   "evidence_file": f"/verif/evidence/{pid}.json", "replay_cmd_template": "./check --replay {path}", "engine": "symx",
                   "level_claimed": {"category": "model_checking", "text": text, "design_ref": ref},
                   "level_note": NOTE_COMMON, "technique": TECH})
na = [{"property_id": p, "reason": NA.get(p, PENDING)} for p in ALL if p not in CLAIMED]
man = {"version": 1, "setup_cmd": "./setup.sh",
       "hooks": {"guard": "MOLGRI_VERIF", "enable": "none needed: harnesses rebind module globals of the imported molgri modules at run time; MOLGRI_VERIF=1 is exported by ./check but no source hook reads it",
                 "baseline_off_cmd": "cd /repo && /venv/bin/python -m pytest -ra -q -p no:cacheprovider --timeout=900 --continue-on-collection-errors",
                 "source_commits": [], "add_only": True},
       "engines": [{"name": "symx", "path": "/verif/symx", "serves_properties": sorted(CLAIMED),
                    "kind_free_text": "symbolic execution of real Python/numpy code on z3-backed scalars in numpy object arrays; path forking by re-execution; z3/cvc5 portfolio"}],
       "checks": checks, "not_applicable": na,
       "notes": "Exit codes of ./check: 0 no violation, 1 confirmed violation (VIOLATION line), 2 harness error. INCONCLUSIVE lines are never counted as held."}
json.dump(man, open(os.path.join(ROOT, "MANIFEST.json"), "w"), indent=1)
print("claimed", sorted(CLAIMED), "not_applicable", [x["property_id"] for x in na])
