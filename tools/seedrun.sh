#!/bin/bash
# tools/seedrun.sh <seed-dir> <PROP> [tier]   run a check against a scratch copy of /repo's molgri with the seeded patch applied (development aid)
S=$(readlink -f $1); P=$2; TIER=${3:-quick}
D=$(mktemp -d /tmp/seedrun.XXXXXX); git -C /repo archive HEAD molgri | tar -x -C $D; (cd $D && git init -q . 2>/dev/null; git apply --unsafe-paths --directory=$D $S/patch.diff 2>/dev/null || patch -s -p1 -d $D < $S/patch.diff) || { echo "patch failed"; exit 3; }
cd /verif; VERIF_REPO=$D timeout ${MUT_TIMEOUT:-900} ./check $P --tier $TIER 2>&1 | grep -E "^\[|VIOLATION|HARNESS|INCONCL|  obligation" | head -${LINES_OUT:-6}; echo "exit=${PIPESTATUS[0]}"
rm -rf $D
