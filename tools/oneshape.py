"""development aid: run selected shapes of one harness in-process and print timing.  usage: oneshape.py C20 quick <filter-expr> [max]"""
import sys, time, collections
sys.path.insert(0, '/verif')
import importlib
pid, tier, flt = sys.argv[1], sys.argv[2], sys.argv[3]
mx = int(sys.argv[4]) if len(sys.argv) > 4 else 3
mod = importlib.import_module("harness." + pid.lower())
sh = mod.shapes(tier, 0)
print(len(sh), "shapes", collections.Counter(s.get("kind", "-") for s in sh))
sel = [s for s in sh if eval(flt, {}, {"s": s})][:mx]
for s in sel:
    t = time.time(); r = mod.run_shape(s)
    print(s, "paths", r["paths"], "obl", r["obligations"], "proved", r["proved"], "viol", len(r["violations"]), "inc", len(r["inconclusive"]), "t=%.1f" % (time.time() - t), r["engine"])
    for v in r["violations"][:2]: print("  VIOL", str(v)[:400])
    for v in r["inconclusive"][:2]: print("  INC", str(v)[:300])
