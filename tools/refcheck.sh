#!/bin/bash
# tools/refcheck.sh <PROP> <patch.diff> [<PROP2> ...]  -- development aid: apply a behaviour-preserving refactoring to a scratch copy of /repo's
# molgri and run the quick check(s) against it; the expected outcome is exit 0 without VIOLATION / HARNESS-ERROR lines.
PATCH=$(readlink -f $2); PROPS="$1 ${@:3}"
D=$(mktemp -d /tmp/refrun.XXXXXX); git -C /repo archive HEAD molgri | tar -x -C $D
(cd $D && patch -s -p1 < $PATCH) || { echo "patch failed"; rm -rf $D; exit 3; }
cd /verif
for P in $PROPS; do
  VERIF_REPO=$D timeout ${MUT_TIMEOUT:-1500} ./check $P --tier quick > $D/out.log 2>&1; rc=$?
  echo "$(basename $PATCH) vs $P: exit=$rc $(grep -c '^VIOLATION' $D/out.log) VIOLATION, $(grep -c '^INCONCLUSIVE' $D/out.log) INCONCLUSIVE, $(grep -c 'HARNESS-ERROR' $D/out.log) HARNESS-ERROR :: $(grep -E '^\[' $D/out.log | cut -c1-150)"
  if [ $rc -ne 0 ] || grep -q '^INCONCLUSIVE' $D/out.log; then grep -E "VIOLATION|  obligation|HARNESS-ERROR|INCONCLUSIVE" $D/out.log | head -6 | cut -c1-400; grep -A12 "HARNESS-ERROR" $D/out.log | tail -14 | cut -c1-300; fi
done
rm -rf $D
