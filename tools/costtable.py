#!/usr/bin/env python3
"""development aid: prints the rows of DESIGN section 9 from the committed evidence files (quick tier)"""
import json, glob, os
ROOT = os.path.dirname(os.path.dirname(os.path.abspath(__file__)))
for f in sorted(glob.glob(os.path.join(ROOT, "evidence", "C*.json"))):
    e = json.load(open(f)); c = e["coverage"]
    print(f"| {e['property_id']} | {c['shapes_completed']}/{c['shapes']} | {c['states']} | {c['obligations']} | {c['discharged']} | {c['inconclusive']} | {e['wall_s']:.0f} s | {c['solver_time_s']:.0f} s |")
