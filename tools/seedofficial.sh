#!/bin/bash
# tools/seedofficial.sh <seed-dir> <PROP> [<PROP>...]  -- the recorded run: apply the seeded patch to /repo itself, run the quick
# check(s), undo the patch straight afterwards (also on error / interrupt). Evidence of these runs goes to /tmp, never to /verif/evidence.
S=$(readlink -f $1); shift
cd /verif
git -C /repo diff --quiet || { echo "/repo has uncommitted changes; refusing"; exit 3; }
trap 'git -C /repo checkout -- . ; echo "(patch undone)"' EXIT
git -C /repo apply $S/patch.diff || { echo "patch does not apply"; exit 3; }
for P in "$@"; do
  VERIF_EVIDENCE_DIR=/tmp/seed_evidence timeout 1200 ./check $P --tier quick > $S/check_$P.log 2>&1; rc=$?
  echo "$(basename $S) vs $P: exit=$rc $(grep -c '^VIOLATION' $S/check_$P.log) VIOLATION line(s); $(grep -E '^\[' $S/check_$P.log | cut -c1-160)"
  sed -i 's/^\(  obligation=.\{0,400\}\).*/\1/' $S/check_$P.log
done
