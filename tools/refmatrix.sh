#!/bin/bash
# tools/refmatrix.sh  -- development aid: every stored behaviour-preserving refactoring (benign/<PROP>-r<k>/patch.diff) against the quick check of
# its property and of the properties that share the touched code; one line per run into benign/RESULTS.txt
cd /verif
declare -A EXTRA=( [C01]="C14" [C02]="C05 C19" [C04]="C02" [C05]="C02 C16" [C09]="C02" [C11]="C09" [C16]="C05" [C19]="C02 C04" [C07]="C04" )
: > benign/RESULTS.txt
for d in $(ls -d benign/C*-r* | sort); do
  P=$(basename $d | cut -d- -f1)
  tools/refcheck.sh $P $d/patch.diff ${EXTRA[$P]} 2>&1 | grep " vs " | sed "s|^patch.diff|$(basename $d)|" | cut -c1-260 >> benign/RESULTS.txt
done
echo done >> benign/RESULTS.txt
