#!/usr/bin/env python3
"""writes seeded/<id>/meta.json from the confirmation summaries (/tmp/seedtests) and the recorded check logs (seeded/<id>/check_*.log)"""
import glob, json, os
ROOT = os.path.dirname(os.path.dirname(os.path.abspath(__file__)))
NEEDS = {
 "C01-a": "a neighbouring pair with E_i - E_j < -500 kJ/mol (only the rate INTO the high-energy cell changes); visible only with a relative tolerance",
 "C02-a": "a rotation cell that touches both q_c and -q_c with different border areas (coarse grids: cube4D N=4,5,9-20, randomQ N=4-22)",
 "C04-a": "a pair of rotations adjacent directly AND through the antipodal copy (cube4D N=4,5,9-20; randomQ N=4-22)",
 "C05-a": "at least three radii with unequal increments (uniform grids and 1-2 shells stay correct)",
 "C07-a": "a quaternion whose leading coordinate lies in (1e-8, 1e-2] in absolute value (randomQ, N >= 141 with the fixed seed)",
 "C09-a": "a grid with a single position cell (n_o = n_t = 1), any n_b: decomposition returns an empty rotation grid",
 "C10-a": "a grid array that is not in FullGrid's position-major product layout (individual rows, orientation-major product, permuted grids)",
 "C11-a": "non-uniform radial spacing (n_t >= 3), include_outliers=False, and a distance between the two candidate outer bounds",
 "C12-a": "non-overlapping windows, tau >= 2, a leading NaN run whose length is not a multiple of tau",
 "C13-a": "index list threaded through an earlier deletion of cell c, then a merge with overlapping sublists whose only shared member is c",
 "C14-a": "a SECOND get_rate_matrix call that sees the same borders array (temperature scan / second SQRA from the same loaded arrays)",
 "C16-a": "a negative distance written in linspace/range/arange form (the same values as a list are still rejected)",
 "C17-a": "a name whose only number is 0 (or 00) with no algorithm token and no 'zero' substring",
 "C19-a": "Cartesian mode, exactly four directions, at least two radii, get_full_borders (real Qhull geometry: a border polygon with zero shared vertices)",
 "C01-b": "a cell with no neighbour (np.add.reduceat returns data[indptr[i]] for an empty segment; IndexError if it is the last cell)",
 "C02-b": "a single rotation (n_b = 1) together with a metric factor f != 1",
 "C04-b": "adjacent rotation cells whose centres are more than pi/2 apart (very coarse grids: cube4D N=4,5,9; randomQ N=4..24)",
 "C05-b": "three or more radii with unequal increments (middle shells overlap or leave gaps)",
 "C07-b": "algorithm fulldiv with its smallest admissible size N=8 (0 subdivisions is falsy)",
 "C09-b": "the same integer numpy index array handed to both index helpers (or reused afterwards)",
 "C10-b": "a grid row whose quaternion rotates by less than about 0.5 degrees (never produced by a FullGrid), molecule 2 with >= 2 atoms",
 "C11-b": "a centre-of-mass distance in the band (a+b)/2 < r < sqrt((a^2+b^2)/2) just outside a shell boundary",
 "C12-b": "the same MSM object asked twice for the same tau >= 2 with different windowing modes",
 "C13-b": "exactly one join sublist that names a cell twice, with index_list=None (first operation of a history)",
 "C14-b": "ARPACK returning eigenpairs in non-descending order (e.g. which='LM' with a shift inside the spectrum)",
 "C16-b": "a list/tuple not already ascending (or a descending linspace/range): the identifier is the md5 of the unsorted input",
 "C17-b": "a name whose number tokens all denote the same integer (ico_12_12, ico_012_12)",
 "C19-b": "Cartesian mode with exactly one radius (constructor IndexError for every n_o, n_b)",
 "C01-c": "coo input and a SECOND get_rate_matrix call / second SQRA on the same border array (in-place scaling and division of the caller's data)",
 "C02-c": "get_full_prefactors() then a matrix getter on the SAME FullGrid object (lru_cache hands out one shared matrix that is divided in place)",
 "C04-c": "a rotation grid with exactly N = 4 points (threshold written as dimensions + 1)",
 "C05-c": "borders first, then volumes / borders again on the same PositionGrid (cached shell boundaries squared in place)",
 "C07-c": "a 3-D grid with 2N rows asked for its upper rows first, then an N-rotation grid in the same process (class-level memo keyed by row count)",
 "C09-c": "the caller edits the array returned by get_full_grid_as_array, then asks again (memo handed out without a copy)",
 "C10-c": "a first generator abandoned at a yield, then a second pseudotrajectory from the same molecule object",
 "C11-c": "the same grid array decomposed / used a second time (normalised in place through a view)",
 "C12-c": "a cell that takes part in exactly one counted window (row sum 1/2 + 1/2 = 1 hits the guard)",
 "C13-c": "a deletion naming two members of one merged group, with the index list threaded",
 "C14-c": "a large common energy offset (per-cell exponentials underflow; identical over the reals)",
 "C16-c": "get_between_radii asked with both include_zero values for the same radii in one process",
 "C17-c": "a standard name produced in one role, then parsed in the other role in the same process",
 "C19-c": "Cartesian mode, n_o in {3,4}, borders before volumes on one object (list.remove(-1) on the stored regions)",
 "C01-d": "energy spread above ~1400 RT (about 3500 kJ/mol at 300 K) with a neighbouring pair among the high cells below the cap: per-cell weights underflow (identical over the reals)",
 "C02-d": "two FullGrid objects with different factors in one process; a getter on the earlier one after the later one was constructed (class-level scaling table)",
 "C04-d": "FullGrid with exactly one position and n_b >= 4: get_full_prefactors() divides the cached rotation matrix in place; or any caller editing .data of a returned matrix and asking again",
 "C05-d": "a Cartesian-mode grid evaluated first, then a default grid with the same o/t names in the same process (cache keyed by a name that ignores the mode)",
 "C07-d": "hemisphere_quaternion_set applied to the float double-cover array a 4-D grid handed out (flipped in place: the grid becomes [G; G])",
 "C09-d": "two radial grids whose shortened (32-bit) md5 identifiers collide, same direction grid, in one process (position array cached by name)",
 "C10-d": "get_one_molecule_pt_as_universe, then an in-place edit of the returned universe, then get_pt_as_universe on the same object (view into the cached trajectory)",
 "C11-d": "two AssignmentTool objects in one process whose grids have the same shape and the same sum of absolute entries (e.g. radii with equal sum)",
 "C12-d": "more than 46 340 cells and a visited start cell with index >= 2^31 / n (int32 wrap of start*n+end); beyond every bound of the check",
 "C13-d": "csr input, a deletion after which a row in the MIDDLE of the matrix has no stored entry at all (np.add.reduceat on the CSR buffers)",
 "C14-d": "one DecompositionTool called with two different non-None spectral shifts (LU factorisation cached without its sigma)",
 "C16-d": "a range/arange form whose last intended radius lies within 1e-5 (relative) of stop (dropped by np.isclose)",
 "C17-d": "a name with two algorithm tokens one of which contains 'zero' (lazy fields: the duplicate check never runs)",
 "C19-d": "n_b >= 2 and the forwarded position adjacency (or Cartesian borders/distances) asked before the first get_full_adjacency on one object",
 "C01-e": "cell volumes handed over as an integer-dtype array with values > 1 (np.reciprocal on integers is integer division)",
 "C02-e": "a rotation block at least half full (4 <= n_b <= 19 for cube4D): scipy.sparse.kron takes its BSR shortcut and the block's zeros become stored entries",
 "C04-e": "a sparse irregular 4-D grid (randomQ N = 7..24) in which two cells share a face while their centres are more than a quarter turn apart and the complementary sign pair shares none",
 "C05-e": "a direction grid with exactly four points (ico_4, cube3D_4, randomS_4)",
 "C07-e": "algorithm fulldiv with N >= 40: points with q0 = 0 and mixed-sign later coordinates",
 "C09-e": "a single-direction grid (n_o = 1, integer array [[0,0,1]]) and a radius that is not a whole number of Angstroms",
 "C10-e": "two molecules with different atom counts",
 "C11-e": "a first molecule whose atom count differs from the second's",
 "C12-e": "tau >= 2 and an unassigned (NaN) frame strictly between two assigned frames exactly tau apart",
 "C13-e": "at least three overlapping join sublists given in a bridging order ([[0,1],[2,3],[1,2]]), index_list=None",
 "C14-e": "T below 300.7 K and a neighbouring pair whose energies differ by more than 0.2*R*T kJ/mol but less than the 500 kJ/mol cap",
 "C16-e": "a linspace(...) / range(...) / arange(...) form followed by whitespace (trailing blank, tab or newline)",
 "C17-e": "a name with two ADJACENT number tokens (ico_12_17)",
 "C19-e": "default position mode, at least two radii and a small direction grid (n_o = 2..7): kron returns a BSR matrix without .row/.col",
 "C20-e": "an xvg file with exactly one data line (squeeze() collapses the single-row column to a 0-d array)",
 "C01-f": "a strictly positive cell volume of 1e-8 or smaller (np.isclose(volume, 0) with its absolute tolerance -> replaced by inf -> rate 0)",
 "C02-f": "position_grid_cartesian=True: the full-grid borders/distances are built from the layered-sphere quantities while the position grid reports Cartesian ones",
 "C04-f": "a randomQ grid with N = 7..24: two cells whose only shared face is between +q_i and the copy of q_j more than a quarter turn away",
 "C05-f": "a radial grid with a spacing that is not a multiple of 0.001 Angstrom (increments rounded to 3 decimals)",
 "C07-f": "algorithm fulldiv (any admissible N): about half of the rows have a negative first non-zero coordinate",
 "C09-f": "a single-direction grid (integer array [[0,0,1]]) and a radius that is not a whole number of Angstroms",
 "C10-f": "the optional dimensions= keyword of Pseudotrajectory and a row whose position component exceeds half the box edge",
 "C11-f": "include_outliers=False, >= 2 frames, an outlier frame before an in-grid frame, n_b > 1 (rotation indices of earlier frames)",
 "C12-f": "a trajectory shorter than tau with L < tau < 2L (negative slice bounds)",
 "C13-f": "all cells deleted (empty index list), then a merge naming two or more of the deleted cells",
 "C14-f": "a 6-D cell volume below 1e-5 (small metric factor): replaced by 1 in the rate matrix",
 "C16-f": "a linspace/range/arange form that DEScends from a non-negative start into negative values",
 "C17-f": "a name containing 'zero' and a number other than 1 (zero_5, 7_zero4D, zero_0)",
 "C19-f": "a one-point grid spelled by algorithm name without a number (zero, zero3D, zero4D)",
 "C20-f": "a legend text with leading/trailing blanks, or two legends differing only by such blanks",
}
NOT_CAUGHT = {
 "C12-d": "not caught, and not catchable inside the bound: the defect is a 32-bit wrap that needs more than 46 340 cells (the check covers n <= 4 and models Python/NumPy integers as mathematical integers); the restructured counting (np.unique(return_counts) / divmod / coo_array on symbolic cell indices) is also beyond what the array model encodes, so the check ends with a harness error (exit 2), never with a pass",
 "C14-d": "not caught: the spectral sentence is covered for the sorting glue only, with ARPACK as a contract stub for the plain call; what ARPACK returns when it is handed a stale shift-invert operator is ARPACK's semantics (outside, DESIGN section 6). With sigma=None -- the only setting the glue harness uses -- the changed code behaves exactly as before, so the check passes",
}
for d in sorted(glob.glob(os.path.join(ROOT, "seeded", "C*-*"))):
    sid = os.path.basename(d)
    prop = sid.split("-")[0]
    sf = f"/tmp/seedtests/{sid}.summary"
    old = json.load(open(os.path.join(d, "meta.json"))) if os.path.exists(os.path.join(d, "meta.json")) else {}
    summ = open(sf).read().strip() if os.path.exists(sf) else old.get("confirmed_in_scratch_worktree", {}).get("result", "pending")
    runs = {}
    for f in glob.glob(d + "/check_*.log"):
        p = os.path.basename(f)[6:-4]
        t = open(f).read()
        runs[p] = {"exit": 1 if "VIOLATION property=" in t else (2 if "HARNESS-ERROR" in t else 0), "violation_lines": sum(1 for l in t.splitlines() if l.startswith("VIOLATION")),
                   "summary": next((l for l in t.splitlines() if l.startswith("[")), "")}
    meta = {"seed": sid, "breaks_property": prop,
            "origin": "fresh sub-agent given only the property text and a scratch worktree of /repo" + {"a": " (round 1)", "b": " (round 2: told which idea was already taken)", "c": " (round 3: told the two ideas already taken; asked for multi-step sequences, cooperating sites, state, aliasing)", "d": " (round 4: told the three ideas already taken; asked for a clearly different mechanism and site)", "e": " (round 5: told the ideas already taken; asked for boundary/tie/ordering mistakes, simplifications valid only for uniform inputs, numpy/scipy API subtleties)", "f": " (round 6: told the ideas already taken; asked for option/default drift, error-path drift, two cooperating sites)"}[sid[-1]],
            "needs_to_manifest": NEEDS.get(sid, ""),
            "confirmed_in_scratch_worktree": {"command": f"tools/seedconfirm.sh seeded/{sid}", "result": summ,
                                              "meaning": "demo.py exits 0 on /repo HEAD and 1 with patch.diff applied; full existing suite with the patch: only the 4 known missing-input failures of tests/test_pt.py"},
            "checks_run_with_patch_applied_to_repo": {"command": f"tools/seedofficial.sh seeded/{sid} " + " ".join(sorted(runs)), "results": runs, "patch_undone_afterwards": True},
            "caught": bool(runs) and any(r["exit"] == 1 for r in runs.values())}
    if sid in NOT_CAUGHT:
        meta["not_caught_because"] = NOT_CAUGHT[sid]
    json.dump(meta, open(os.path.join(d, "meta.json"), "w"), indent=1)
    print(sid, "caught" if meta["caught"] else "NOT-RECORDED-YET", "|", summ[:70])
