#!/usr/bin/env python3
"""writes seeded/<id>/meta.json from the confirmation summaries (/tmp/seedtests) and the recorded check logs (seeded/<id>/check_*.log)"""
import glob, json, os
ROOT = os.path.dirname(os.path.dirname(os.path.abspath(__file__)))
NEEDS = {
 "C01-a": "a neighbouring pair with E_i - E_j < -500 kJ/mol (only the rate INTO the high-energy cell changes); visible only with a relative tolerance",
 "C02-a": "a rotation cell that touches both q_c and -q_c with different border areas (coarse grids: cube4D N=4,5,9-20, randomQ N=4-22)",
 "C04-a": "a pair of rotations adjacent directly AND through the antipodal copy (cube4D N=4,5,9-20; randomQ N=4-22)",
 "C05-a": "at least three radii with unequal increments (uniform grids and 1-2 shells stay correct)",
 "C07-a": "a quaternion whose leading coordinate lies in (1e-8, 1e-2] in absolute value (randomQ, N >= 141 with the fixed seed)",
 "C09-a": "a grid with a single position cell (n_o = n_t = 1), any n_b: decomposition returns an empty rotation grid",
 "C10-a": "a grid array that is not in FullGrid's position-major product layout (individual rows, orientation-major product, permuted grids)",
 "C11-a": "non-uniform radial spacing (n_t >= 3), include_outliers=False, and a distance between the two candidate outer bounds",
 "C12-a": "non-overlapping windows, tau >= 2, a leading NaN run whose length is not a multiple of tau",
 "C13-a": "index list threaded through an earlier deletion of cell c, then a merge with overlapping sublists whose only shared member is c",
 "C14-a": "a SECOND get_rate_matrix call that sees the same borders array (temperature scan / second SQRA from the same loaded arrays)",
 "C16-a": "a negative distance written in linspace/range/arange form (the same values as a list are still rejected)",
 "C17-a": "a name whose only number is 0 (or 00) with no algorithm token and no 'zero' substring",
 "C19-a": "Cartesian mode, exactly four directions, at least two radii, get_full_borders (real Qhull geometry: a border polygon with zero shared vertices)",
 "C01-b": "a cell with no neighbour (np.add.reduceat returns data[indptr[i]] for an empty segment; IndexError if it is the last cell)",
 "C02-b": "a single rotation (n_b = 1) together with a metric factor f != 1",
 "C04-b": "adjacent rotation cells whose centres are more than pi/2 apart (very coarse grids: cube4D N=4,5,9; randomQ N=4..24)",
 "C05-b": "three or more radii with unequal increments (middle shells overlap or leave gaps)",
 "C07-b": "algorithm fulldiv with its smallest admissible size N=8 (0 subdivisions is falsy)",
 "C09-b": "the same integer numpy index array handed to both index helpers (or reused afterwards)",
 "C10-b": "a grid row whose quaternion rotates by less than about 0.5 degrees (never produced by a FullGrid), molecule 2 with >= 2 atoms",
 "C11-b": "a centre-of-mass distance in the band (a+b)/2 < r < sqrt((a^2+b^2)/2) just outside a shell boundary",
 "C12-b": "the same MSM object asked twice for the same tau >= 2 with different windowing modes",
 "C13-b": "exactly one join sublist that names a cell twice, with index_list=None (first operation of a history)",
 "C14-b": "ARPACK returning eigenpairs in non-descending order (e.g. which='LM' with a shift inside the spectrum)",
 "C16-b": "a list/tuple not already ascending (or a descending linspace/range): the identifier is the md5 of the unsorted input",
 "C17-b": "a name whose number tokens all denote the same integer (ico_12_12, ico_012_12)",
 "C19-b": "Cartesian mode with exactly one radius (constructor IndexError for every n_o, n_b)",
}
for d in sorted(glob.glob(os.path.join(ROOT, "seeded", "C*-*"))):
    sid = os.path.basename(d)
    prop = sid.split("-")[0]
    sf = f"/tmp/seedtests/{sid}.summary"
    old = json.load(open(os.path.join(d, "meta.json"))) if os.path.exists(os.path.join(d, "meta.json")) else {}
    summ = open(sf).read().strip() if os.path.exists(sf) else old.get("confirmed_in_scratch_worktree", {}).get("result", "pending")
    runs = {}
    for f in glob.glob(d + "/check_*.log"):
        p = os.path.basename(f)[6:-4]
        t = open(f).read()
        runs[p] = {"exit": 1 if "VIOLATION property=" in t else (2 if "HARNESS-ERROR" in t else 0), "violation_lines": sum(1 for l in t.splitlines() if l.startswith("VIOLATION")),
                   "summary": next((l for l in t.splitlines() if l.startswith("[")), "")}
    meta = {"seed": sid, "breaks_property": prop,
            "origin": "fresh sub-agent given only the property text and a scratch worktree of /repo" + (" (round 2: told which idea was already taken)" if sid.endswith("-b") else " (round 1)"),
            "needs_to_manifest": NEEDS.get(sid, ""),
            "confirmed_in_scratch_worktree": {"command": f"tools/seedconfirm.sh seeded/{sid}", "result": summ,
                                              "meaning": "demo.py exits 0 on /repo HEAD and 1 with patch.diff applied; full existing suite with the patch: only the 4 known missing-input failures of tests/test_pt.py"},
            "checks_run_with_patch_applied_to_repo": {"command": f"tools/seedofficial.sh seeded/{sid} " + " ".join(sorted(runs)), "results": runs, "patch_undone_afterwards": True},
            "caught": bool(runs) and all(r["exit"] == 1 for r in runs.values())}
    json.dump(meta, open(os.path.join(d, "meta.json"), "w"), indent=1)
    print(sid, "caught" if meta["caught"] else "NOT-RECORDED-YET", "|", summ[:70])
