#!/bin/bash
# tools/seedconfirm.sh <seed-dir>  -- confirm a seeded change in a scratch worktree of /repo HEAD:
#   demo exits 0 without the change, 1 with it; the full existing test suite still passes with it (log kept).
set -u
S=$(readlink -f $1); ID=$(basename $S)
W=/tmp/seedwt/$ID; rm -rf $W; mkdir -p /tmp/seedwt /tmp/seedtests
git -C /repo worktree add -q --detach $W HEAD || exit 3
cd $W
PYTHONPATH=$W /venv/bin/python $S/demo.py > /tmp/seedtests/$ID.demo_clean.log 2>&1; a=$?
git apply $S/patch.diff || { echo "$ID: patch does not apply"; git -C /repo worktree remove --force $W; exit 3; }
PYTHONPATH=$W /venv/bin/python $S/demo.py > /tmp/seedtests/$ID.demo_seeded.log 2>&1; b=$?
/venv/bin/python -m pytest -q -p no:cacheprovider --timeout=900 --continue-on-collection-errors tests > /tmp/seedtests/$ID.tests.log 2>&1
t=$(tail -1 /tmp/seedtests/$ID.tests.log)
f=$(grep -E "^FAILED" /tmp/seedtests/$ID.tests.log | grep -v -E "test_pt.py::(test_getting_each_molecule|test_order_of_operations|test_pt_len|test_pt_rotations_body)" | wc -l)
echo "$ID demo_clean=$a demo_seeded=$b unexpected_test_failures=$f :: $t" | tee /tmp/seedtests/$ID.summary
cd /; git -C /repo worktree remove --force $W
