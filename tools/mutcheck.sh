#!/bin/bash
# tools/mutcheck.sh <PROP> <file-relative-to-repo> <python-regex> <replacement>   (development aid, not a registered check)
# copies /repo/molgri to a scratch dir, applies one textual mutation, runs the quick check against it.
set -e
P=$1; F=$2; PAT=$3; REP=$4
D=$(mktemp -d /tmp/mut.XXXXXX); git -C /repo archive HEAD molgri | tar -x -C $D
python3 - "$D/$F" "$PAT" "$REP" <<'PY'
import re,sys
fn,pat,rep=sys.argv[1:4]
s=open(fn).read(); s2,n=re.subn(pat,rep,s,count=1)
assert n==1, "pattern not found"
open(fn,'w').write(s2)
PY
cd /verif; VERIF_REPO=$D timeout ${MUT_TIMEOUT:-600} ./check $P --tier ${TIER:-quick} 2>&1 | grep -E "^\[|VIOLATION|HARNESS|INCONCL" | head -${LINES_OUT:-4}; echo "exit=${PIPESTATUS[0]}"
rm -rf $D
