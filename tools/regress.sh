#!/bin/bash
# tools/regress.sh [jobs]  -- development aid: re-run every stored seed against the checks recorded in its meta.json (scratch copies of
# /repo's committed tree, never /repo itself) and print one line per run; a seed that was caught must still end with exit=1
J=${1:-3}
cd /verif
python3 - <<'PY' > /tmp/regress_jobs.txt
import json, glob, os
for d in sorted(glob.glob('seeded/*/')):
    sid = os.path.basename(d.rstrip('/'))
    m = json.load(open(d + 'meta.json')) if os.path.exists(d + 'meta.json') else {}
    props = sorted((m.get('checks_run_with_patch_applied_to_repo') or {}).get('results', {})) or [sid.split('-')[0]]
    for p in props:
        print(sid, p, int(bool(m.get('caught'))))
PY
run() { set -- $1; r=$(MUT_TIMEOUT=1500 LINES_OUT=3 tools/seedrun.sh seeded/$1 $2 2>&1 | grep -E "^exit=|^\[" | tr '\n' ' ' | cut -c1-260); echo "$1 vs $2 (recorded caught=$3): $r"; }
export -f run
cat /tmp/regress_jobs.txt | xargs -P $J -I{} bash -c 'run "{}"'
