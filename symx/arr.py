"""symx.arr -- SArr: numpy ndarray subclass (dtype=object) holding SR/SB/python numbers.

numpy's own slicing, fancy indexing, broadcasting, tile/repeat/concatenate, in-place operators run unmodified; only
what numpy cannot do on object arrays is overridden through __array_ufunc__/__array_function__.
"""
import math

import numpy as np
import z3

from .core import SR, SB, rv, bz, Engine, Unsupported


def is_sym(x):
    return isinstance(x, (SR, SB))


def lift(a):
    """array-like -> SArr"""
    if isinstance(a, SArr):
        return a
    return np.asarray(a, dtype=object).view(SArr)


def sarr(lst):
    return np.array(lst, dtype=object).view(SArr)


def has_sym(a):
    return any(is_sym(x) for x in np.asarray(a, dtype=object).flat)


_CMP = {np.less, np.less_equal, np.greater, np.greater_equal, np.equal, np.not_equal}


def _elt(f):
    return np.frompyfunc(f, 1, 1)


def _isnan1(x):
    if isinstance(x, SR):
        return SB(x.nan) if x.nan is not None else False
    if isinstance(x, SB):
        return False
    return isinstance(x, (float, np.floating)) and math.isnan(x)


def _sign1(x):
    if isinstance(x, SR):
        return SR(z3.If(x.z > 0, z3.RealVal(1), z3.If(x.z < 0, z3.RealVal(-1), z3.RealVal(0))))
    return np.sign(x)


def _abs1(x):
    return abs(x)


def _land(a, b):
    if is_sym(a) or is_sym(b):
        return (a if isinstance(a, SB) else SB(bz(a))) & b
    return bool(a) and bool(b)


def _lor(a, b):
    if is_sym(a) or is_sym(b):
        return (a if isinstance(a, SB) else SB(bz(a))) | b
    return bool(a) or bool(b)


def _lnot(a):
    if isinstance(a, SB):
        return ~a
    if isinstance(a, SR):
        return SB(a.z == 0)
    return not a


def _max2(a, b):
    if is_sym(a) or is_sym(b):
        return SR(z3.If(rv(a) >= rv(b), rv(a), rv(b)))
    return max(a, b)


def _min2(a, b):
    if is_sym(a) or is_sym(b):
        return SR(z3.If(rv(a) <= rv(b), rv(a), rv(b)))
    return min(a, b)


HANDLED = {}


def implements(*fs):
    def d(g):
        for f in fs:
            HANDLED[f] = g
        return g
    return d


def _v(r):
    return r.view(SArr) if isinstance(r, np.ndarray) else r


def _demote(r):
    """object array of plain python bools -> bool array (so concrete masks index normally)"""
    if isinstance(r, np.ndarray) and r.dtype == object and r.size and all(isinstance(x, (bool, np.bool_)) for x in r.flat):
        return r.astype(bool)
    return r


class SArr(np.ndarray):
    def __array_finalize__(self, obj):
        pass

    def __array_ufunc__(self, ufunc, method, *inputs, **kw):
        ins = [i.view(np.ndarray) if isinstance(i, SArr) else i for i in inputs]
        if "out" in kw:
            kw["out"] = tuple(o.view(np.ndarray) if isinstance(o, SArr) else o for o in kw["out"])
        if method == "__call__":
            if ufunc in _CMP:
                kw.setdefault("dtype", object)
                r = ufunc(*ins, **kw)
                r = _demote(r)
                return _v(r) if isinstance(r, np.ndarray) and r.dtype == object else r
            if ufunc is np.isnan:
                r = _elt(_isnan1)(np.asarray(ins[0], dtype=object))
                if isinstance(r, np.ndarray):
                    r = _demote(r)
                    return _v(r) if r.dtype == object else r
                return r
            if ufunc is np.isfinite:
                r = _elt(lambda x: ~SB(x.nan) if isinstance(x, SR) and x.nan is not None else True if is_sym(x) else bool(np.isfinite(x)))(np.asarray(ins[0], dtype=object))
                return _v(_demote(r)) if isinstance(r, np.ndarray) else r
            if ufunc is np.sign:
                return _v(_elt(_sign1)(ins[0]))
            if ufunc in (np.absolute, np.fabs):
                return _v(_elt(_abs1)(np.asarray(ins[0], dtype=object)))
            if ufunc is np.logical_and:
                return _v(_demote(np.frompyfunc(_land, 2, 1)(*ins)))
            if ufunc is np.logical_or:
                return _v(_demote(np.frompyfunc(_lor, 2, 1)(*ins)))
            if ufunc in (np.logical_not, np.invert):
                return _v(_demote(_elt(_lnot)(ins[0])))
            if ufunc is np.bitwise_and:
                return _v(_demote(np.frompyfunc(_land, 2, 1)(*ins)))
            if ufunc is np.bitwise_or:
                return _v(_demote(np.frompyfunc(_lor, 2, 1)(*ins)))
            if ufunc is np.reciprocal:
                return _v(np.frompyfunc(lambda a: 1 / a, 1, 1)(ins[0]))
            if ufunc is np.maximum:
                return _v(np.frompyfunc(_max2, 2, 1)(*ins))
            if ufunc is np.minimum:
                return _v(np.frompyfunc(_min2, 2, 1)(*ins))
            if ufunc is np.square:
                return _v(np.frompyfunc(lambda a: a * a, 1, 1)(ins[0]))
        if method == "reduce" and ufunc in (np.maximum, np.minimum):
            raise Unsupported("max/min reduce on symbolic array; use the np.max handler")
        r = getattr(ufunc, method)(*ins, **kw)
        if isinstance(r, np.ndarray) and r.dtype == object:
            r = r.view(SArr)
        return r

    def __array_function__(self, func, types, args, kwargs):
        if func in HANDLED:
            return HANDLED[func](*args, **kwargs)
        args2 = _strip(args)
        kw2 = _strip(kwargs)
        r = func(*args2, **kw2)
        return _rewrap(r)

    def __getitem__(self, idx):
        idx = _fix_index(idx)
        if isinstance(idx, np.ndarray) and idx.dtype == object and idx.size and any(isinstance(b, SB) for b in idx.flat):
            mask = np.array([bool(b) for b in idx.view(np.ndarray).flat]).reshape(idx.shape)  # forks
            return super().__getitem__(mask)
        if isinstance(idx, LazyIdx):
            idx = idx.concrete()
        return super().__getitem__(idx)

    def __setitem__(self, idx, val):
        idx = _fix_index(idx)
        if isinstance(idx, np.ndarray) and idx.dtype == object and idx.size and any(isinstance(b, SB) for b in idx.flat):
            base = self.view(np.ndarray)
            vals = np.broadcast_to(np.asarray(_strip(val), dtype=object), base.shape)
            for k in np.ndindex(base.shape):
                m = idx[k]
                if isinstance(m, SB):
                    base[k] = SR(z3.If(m.z, rv(vals[k]), rv(base[k])))
                elif m:
                    base[k] = vals[k]
            return
        if isinstance(idx, LazyIdx):
            idx = idx.concrete()
        super().__setitem__(idx, val)

    def astype(self, dtype, *a, **kw):
        if has_sym(self) and dtype in (float, np.float64, object, "float", "float64"):
            return self.copy()          # a symbolic array converted "to float" stays symbolic (the reals are the model of float)
        return np.asarray(self.view(np.ndarray)).astype(dtype, *a, **kw)

    def any(self, axis=None, **kw):
        return _any(self, axis)

    def all(self, axis=None, **kw):
        return _all(self, axis)

    def max(self, axis=None, **kw):
        return _minmax(self, axis, _max2)

    def min(self, axis=None, **kw):
        return _minmax(self, axis, _min2)

    def round(self, decimals=0, out=None):
        return _round(self, decimals)

    def dot(self, o):
        return np.dot(self, o)


def _fix_index(idx, in_tuple=False):
    if isinstance(idx, np.ndarray) and idx.dtype == object and idx.size and all(isinstance(b, (bool, np.bool_)) for b in idx.flat):
        return idx.view(np.ndarray).astype(bool)
    if in_tuple and isinstance(idx, np.ndarray) and idx.dtype == object and idx.size and any(isinstance(b, SB) for b in idx.flat):
        # a symbolic boolean mask as ONE component of a multi-dimensional index (a[mask, j]): the selection has a symbolic length, so the
        # mask is made concrete by deciding its elements (forks; decisions about the same condition are cached on the path)
        return np.array([bool(b) for b in idx.view(np.ndarray).flat]).reshape(idx.shape)
    if isinstance(idx, tuple):
        return tuple(_fix_index(i, True) for i in idx)
    return idx


def _strip(x):
    if isinstance(x, SArr):
        return x.view(np.ndarray)
    if isinstance(x, tuple):
        return tuple(_strip(i) for i in x)
    if isinstance(x, list):
        return [_strip(i) for i in x]
    if isinstance(x, dict):
        return {k: _strip(v) for k, v in x.items()}
    return x


def _rewrap(r):
    if isinstance(r, np.ndarray) and r.dtype == object:
        return r.view(SArr)
    if isinstance(r, tuple):
        return tuple(_rewrap(i) for i in r)
    if isinstance(r, list):
        return [_rewrap(i) for i in r]
    return r


def _red(a, axis, op, unit):
    a = np.asarray(_strip(a), dtype=object)

    def red(v):
        acc = None
        for x in v:
            x = x if isinstance(x, SB) else SB(bz(x))
            acc = x if acc is None else op(acc, x)
        if acc is None:
            return unit
        s = z3.simplify(acc.z)
        if z3.is_true(s):
            return True
        if z3.is_false(s):
            return False
        return SB(s)
    if axis is None:
        return red(a.flat)
    if a.shape[axis] == 0:
        shp = tuple(s for i, s in enumerate(a.shape) if i != axis)
        return np.full(shp, unit, dtype=bool)
    r = np.apply_along_axis(lambda v: np.array([red(v)], dtype=object), axis, a)
    r = np.squeeze(r, axis=axis)
    if all(isinstance(x, (bool, np.bool_)) for x in r.flat):
        return r.astype(bool)
    return r.view(SArr)


def _any(a, axis=None):
    return _red(a, axis, lambda x, y: x | y, False)


def _all(a, axis=None):
    return _red(a, axis, lambda x, y: x & y, True)


implements(np.any)(lambda a, axis=None, **k: _any(a, axis))
implements(np.all)(lambda a, axis=None, **k: _all(a, axis))


def _minmax(a, axis, op2):
    a = np.asarray(_strip(a), dtype=object)
    if a.size == 0:
        raise ValueError("zero-size array to reduction operation which has no identity")

    def red(v):
        acc = None
        for x in v:
            acc = x if acc is None else op2(acc, x)
        return acc
    if axis is None:
        return red(a.flat)
    r = np.apply_along_axis(lambda v: np.array([red(v)], dtype=object), axis, a)
    return np.squeeze(r, axis=axis).view(SArr)


implements(np.max, np.amax)(lambda a, axis=None, **k: _minmax(a, axis, _max2))
implements(np.min, np.amin)(lambda a, axis=None, **k: _minmax(a, axis, _min2))


class LazyIdx:
    """result of 1-arg np.where on a symbolic 1-d mask: membership decided lazily; len() forks on the count only"""

    def __init__(self, mask):
        self.mask = list(mask)
        self._c = None

    def concrete(self):
        if self._c is None:
            self._c = np.array([i for i, b in enumerate(self.mask) if bool(b)], dtype=int)
        return self._c

    def __len__(self):
        if self._c is not None:
            return len(self._c)
        cnt = z3.Sum([z3.If(bz(b), 1, 0) for b in self.mask]) if self.mask else z3.IntVal(0)
        return Engine.cur.concretize(cnt, 0, len(self.mask))

    def __iter__(self):
        return iter(self.concrete())

    def __getitem__(self, k):
        return self.concrete()[k]

    def __array__(self, dtype=None, copy=None):
        return self.concrete()

    @property
    def shape(self):
        return self.concrete().shape


@implements(np.where)
def _where(c, *ab):
    c = np.asarray(_strip(c), dtype=object) if not isinstance(c, np.ndarray) else c.view(np.ndarray)
    if not ab:
        if c.ndim == 1 and any(isinstance(x, SB) for x in c):
            return (LazyIdx(c),)
        return np.nonzero(np.array([bool(x) for x in c.flat]).reshape(c.shape))
    a, b = (np.asarray(_strip(x), dtype=object) for x in ab)
    c, a, b = np.broadcast_arrays(c, a, b)
    out = np.empty(c.shape, dtype=object)
    for k in np.ndindex(c.shape):
        ck = c[k]
        if isinstance(ck, SB):
            s = z3.simplify(ck.z)
            if z3.is_true(s):
                out[k] = a[k]
            elif z3.is_false(s):
                out[k] = b[k]
            else:
                out[k] = SR(z3.If(s, rv(a[k]), rv(b[k])))
        else:
            out[k] = a[k] if ck else b[k]
    if out.ndim == 0:
        return out.item()
    return out.view(SArr)


@implements(np.nonzero)
def _nonzero(a):
    a = np.asarray(_strip(a), dtype=object)
    return np.nonzero(np.array([bool(x) for x in a.flat]).reshape(a.shape))


def _round(a, decimals=0, out=None):
    a = np.asarray(_strip(a), dtype=object)

    def r1(x):
        if isinstance(x, SR):
            return x.round(decimals)
        return np.round(x, decimals)
    r = _elt(r1)(a)
    return r.view(SArr) if isinstance(r, np.ndarray) else r


implements(np.round, np.around)(_round)


@implements(np.empty_like, np.zeros_like, np.full_like, np.ones_like)
def _empty_like(a, *args, dtype=None, **kw):
    out = np.empty(np.shape(a), dtype=object)
    out[...] = 0.0
    if args:
        out[...] = args[0]
    return out.view(SArr)


def _sq(s):
    return s.sqrt() if isinstance(s, SR) else math.sqrt(s)


def _norm(x, ord=None, axis=None, keepdims=False):
    x = np.asarray(_strip(x), dtype=object)
    assert ord is None
    if axis is None:
        s = sum((v * v for v in x.flat), 0)
        r = _sq(s)
        if keepdims:
            return np.array(r, dtype=object).reshape((1,) * x.ndim).view(SArr)
        return r
    sq = (x * x).sum(axis=axis, keepdims=keepdims)
    r = _elt(_sq)(sq)
    return r.view(SArr) if isinstance(r, np.ndarray) else r


implements(np.linalg.norm)(_norm)


@implements(np.isclose)
def _isclose(a, b, rtol=1e-05, atol=1e-08, equal_nan=False):
    a = np.asarray(_strip(a), dtype=object)
    b = np.asarray(_strip(b), dtype=object)

    def f(x, y):
        if is_sym(x) or is_sym(y):
            return abs(x - y) <= atol + rtol * abs(y)
        return bool(np.isclose(float(x), float(y), rtol=rtol, atol=atol))
    r = np.frompyfunc(f, 2, 1)(a, b)
    if isinstance(r, np.ndarray):
        r = _demote(r)
        return r.view(SArr) if r.dtype == object else r
    return r


@implements(np.allclose)
def _allclose(a, b, rtol=1e-05, atol=1e-08, equal_nan=False):
    r = _all(np.asarray(_isclose(a, b, rtol, atol), dtype=object))
    return r if isinstance(r, SB) else bool(r)


@implements(np.clip)
def _clip(a, a_min=None, a_max=None, out=None, **kw):
    a = np.asarray(_strip(a), dtype=object)

    def f(x):
        if a_min is not None:
            x = _max2(x, a_min)
        if a_max is not None:
            x = _min2(x, a_max)
        return x
    r = _elt(f)(a)
    return r.view(SArr) if isinstance(r, np.ndarray) else r


@implements(np.sort)
def _sort(a, axis=-1, kind=None, order=None):
    a = np.asarray(_strip(a), dtype=object)
    if axis is None:
        a = a.reshape(-1)
        axis = 0
    if a.ndim != 1:
        raise Unsupported("np.sort on symbolic arrays is modelled for 1-d only")
    v = list(a)
    if not any(is_sym(x) for x in v):
        return np.sort(a.astype(float)).astype(object).view(SArr)
    # odd-even transposition network of If terms: no forks, result is the sorted multiset
    n = len(v)
    for rnd in range(n):
        for i in range(rnd % 2, n - 1, 2):
            lo, hi = _min2(v[i], v[i + 1]), _max2(v[i], v[i + 1])
            v[i], v[i + 1] = lo, hi
    return sarr(v)


@implements(np.count_nonzero)
def _count_nonzero(a, axis=None, **kw):
    """the number of true / non-zero elements as ONE symbolic integer-valued term (no fork per element)"""
    if axis is not None or kw:
        raise Unsupported("np.count_nonzero with axis / keepdims on symbolic arrays")
    aa = np.asarray(_strip(a), dtype=object)
    terms, conc = [], 0
    for x in aa.flat:
        if isinstance(x, SB):
            terms.append(z3.If(x.z, z3.RealVal(1), z3.RealVal(0)))
        elif isinstance(x, SR):
            terms.append(z3.If(x.z != 0, z3.RealVal(1), z3.RealVal(0)))
        else:
            conc += 1 if x else 0
    if not terms:
        return conc
    return SR(z3.Sum(terms) + conc)


@implements(np.sum)
def _sum(a, axis=None, **kw):
    a = np.asarray(_strip(a), dtype=object)
    a = _elt(lambda x: x._num() if isinstance(x, SB) else (int(x) if isinstance(x, (bool, np.bool_)) else x))(a) if a.size else a
    r = np.add.reduce(a, axis=axis) if axis is not None else sum(a.flat, 0)
    return r.view(SArr) if isinstance(r, np.ndarray) else r


class _Unsorted:
    """placeholder for the sorted unique values of a symbolic np.unique: the targets only use the index output"""

    def __getattr__(self, nm):
        raise Unsupported("sorted unique values of symbolic rows are not modelled (only return_index is)")

    def __getitem__(self, k):
        raise Unsupported("sorted unique values of symbolic rows are not modelled (only return_index is)")


@implements(np.unique)
def _unique(a, return_index=False, return_inverse=False, return_counts=False, axis=None, **kw):
    aa = np.asarray(_strip(a), dtype=object)
    if not has_sym(aa):
        try:
            conc = aa.astype(int) if all(float(x) == int(x) for x in aa.flat) else aa.astype(float)
        except (TypeError, ValueError):
            conc = aa
        return np.unique(conc, return_index=return_index, return_inverse=return_inverse, return_counts=return_counts, axis=axis, **kw)
    if return_inverse or return_counts:
        raise Unsupported("np.unique on symbolic values: return_inverse / return_counts are not modelled")
    if axis is None:
        rows = [[x] for x in aa.reshape(-1)]
    elif axis == 0 and aa.ndim == 2:
        rows = [list(r) for r in aa]
    else:
        raise Unsupported("np.unique on symbolic values: axis must be None or 0")
    # first occurrence of every distinct row; equality of two rows forks (decided by the solver under the path condition)
    firsts = []
    for i, r in enumerate(rows):
        dup = False
        for j in firsts:
            eq = None
            for x, y in zip(r, rows[j]):
                e = (x == y)
                e = e if isinstance(e, SB) else SB(bz(bool(e)))
                eq = e if eq is None else (eq & e)
            if eq is None or bool(eq):
                dup = True
                break
        if not dup:
            firsts.append(i)

    # numpy returns the indices in the order of the SORTED unique rows (lexicographic): insertion sort with forking comparisons
    def lex_less(r1, r2):
        for x, y in zip(r1, r2):
            if bool(x < y):
                return True
            if bool(x > y):
                return False
        return False
    order = []
    for i in firsts:
        pos = len(order)
        for k, j in enumerate(order):
            if lex_less(rows[i], rows[j]):
                pos = k
                break
        order.insert(pos, i)
    # the sorted unique values themselves: the first occurrences, in sorted order
    vals = sarr([rows[i][0] for i in order]) if axis is None else (sarr([rows[i] for i in order]) if order else np.zeros((0, aa.shape[1]), dtype=object).view(SArr))
    if not return_index:
        return vals
    return vals, np.array(order, dtype=int)


def _argext(a, axis, better):
    a = np.asarray(_strip(a), dtype=object)

    def am(v):
        best = 0
        for i in range(1, len(v)):
            if bool(better(v[i], v[best])):
                best = i
        return best
    if axis is None:
        return am(list(a.flat))
    return np.apply_along_axis(lambda v: np.array(am(list(v)), dtype=int), axis, a).astype(int)


@implements(np.argmin)
def argmin_sym(a, axis=None, **kw):
    """np.argmin semantics: first index attaining the minimum (forks on the comparisons, like numpy's object loop)"""
    return _argext(a, axis, lambda x, y: x < y)


@implements(np.argmax)
def argmax_sym(a, axis=None, **kw):
    return _argext(a, axis, lambda x, y: x > y)
