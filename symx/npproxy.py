"""symx.npproxy -- stand-in for the module global `np` of a target module.

numpy array *constructors* do not dispatch through __array_function__, so inside a harness the target module's `np`
is replaced by this proxy: everything is forwarded to numpy except the constructors, which return SArr (dtype object)
so that symbolic scalars can be stored into the result.
"""
import numpy as _np

from .arr import SArr, is_sym, HANDLED
from .core import SR, SB


class _NdMeta(type):
    """`type(x) == np.ndarray` and `isinstance(x, np.ndarray)` inside a target module must also accept SArr"""

    def __eq__(cls, other):
        return other is _np.ndarray or other is SArr or other is cls

    def __hash__(cls):
        return hash(_np.ndarray)

    def __instancecheck__(cls, inst):
        return isinstance(inst, _np.ndarray)


class NdarrayAlias(metaclass=_NdMeta):
    pass


class NPProxy:
    ndarray = NdarrayAlias

    def __getattr__(self, k):
        return getattr(_np, k)

    @staticmethod
    def _o(a):
        return a.astype(object).view(SArr)

    def full(self, shape, fill, dtype=None, **k):
        if isinstance(fill, float) and fill != fill:
            out = _np.empty(shape, dtype=object)
            out[...] = float("nan")  # NaN cells stay Python NaNs (np.isnan on the array answers True for them); a NaN that reaches an obligation cannot be turned into a term and stops the harness
            return out.view(SArr)
        return self._o(_np.full(shape, fill, dtype=object))

    def zeros(self, shape, dtype=None, **k):
        return self._o(_np.zeros(shape, dtype=object))

    def ones(self, shape, dtype=None, **k):
        return self._o(_np.ones(shape, dtype=object))

    def empty(self, shape, dtype=None, **k):
        return self._o(_np.zeros(shape, dtype=object))

    def array(self, a, dtype=None, **k):
        if getattr(dtype, "_symfloat", False):
            dtype = float
        if dtype is object or dtype is None or dtype is float:
            try:
                r = _np.array(a, dtype=object)
            except ValueError:
                return _np.array(a, dtype=dtype, **k)
            if not any(is_sym(x) for x in r.flat):
                return _np.array(a, dtype=dtype, **k)
            return r.view(SArr)
        return _np.array(a, dtype=dtype, **k)

    def asarray(self, a, dtype=None, **k):
        if getattr(dtype, "_symfloat", False):
            dtype = float
        if isinstance(a, SArr) and dtype in (None, float, object):
            return a          # numpy's asarray does not copy an ndarray (a symbolic array "is" a float array in the model)
        if isinstance(a, _np.ndarray) and (dtype is None or a.dtype == dtype):
            return a          # numpy's asarray does not copy an ndarray: aliasing is part of the semantics
        return self.array(a, dtype=dtype)

    def where(self, c, *ab):
        """np.where does not dispatch on a bare symbolic scalar condition (it would call bool() and fork)"""
        if isinstance(c, (SB, SR)) or any(isinstance(x, (SR, SB)) for x in ab):
            return HANDLED[_np.where](c, *ab)
        return _np.where(c, *ab)

    def isclose(self, a, b, rtol=1e-05, atol=1e-08, equal_nan=False):
        if isinstance(a, (SR, SB)) or isinstance(b, (SR, SB)):
            return abs(a - b) <= atol + rtol * abs(b)
        return _np.isclose(a, b, rtol=rtol, atol=atol, equal_nan=equal_nan)

    def allclose(self, a, b, rtol=1e-05, atol=1e-08, equal_nan=False):
        if isinstance(a, (SR, SB)) or isinstance(b, (SR, SB)):
            return abs(a - b) <= atol + rtol * abs(b)
        return _np.allclose(a, b, rtol=rtol, atol=atol, equal_nan=equal_nan)

    def clip(self, a, a_min=None, a_max=None, **k):
        if isinstance(a, SR):
            return a.clip(a_min, a_max)
        return _np.clip(a, a_min, a_max, **k)

    def eye(self, n, *a, **k):
        return self._o(_np.eye(n, *a))

    def diag(self, v, k=0):
        v = _np.asarray(v.view(_np.ndarray) if isinstance(v, SArr) else v, dtype=object)
        if v.ndim == 1:
            n = len(v) + abs(k)
            out = _np.zeros((n, n), dtype=object)
            for i, x in enumerate(v):
                out[i + max(0, -k), i + max(0, k)] = x
            return out.view(SArr)
        return _np.diag(v, k).view(SArr)
