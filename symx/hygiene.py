"""process-state hygiene: every explored path (and every replay) starts from the module / class level state the molgri modules had when
they were imported -- the state of a fresh process.

Within ONE path the state lives on (that is how defects that leak state between objects or calls are reached: decoy objects first,
then the object under test).  ACROSS paths it must not: the engine re-executes the target once per path in the same worker process, and
a module-level cache filled on one path would otherwise make the next path's result depend on exploration order (non-reproducible
counterexamples, masked defects).  Restored: module globals and class attributes of every loaded `molgri.*` module that are dict / list /
set (restored in place, identity kept) or plain immutable values (rebound), and every functools cache (`cache_clear`)."""
import copy
import sys

_SIMPLE = (type(None), bool, int, float, str, tuple, frozenset)


def snapshot(prefix="molgri"):
    snap = []
    for name, mod in list(sys.modules.items()):
        if mod is None or not (name == prefix or name.startswith(prefix + ".")):
            continue
        for k, v in list(vars(mod).items()):
            if k.startswith("__"):
                continue
            if isinstance(v, (dict, list, set)):
                snap.append(("mod", mod, k, v, copy.copy(v)))
            elif isinstance(v, _SIMPLE):
                snap.append(("modval", mod, k, v, None))
            elif isinstance(v, type) and getattr(v, "__module__", None) == name:
                for ck, cv in list(vars(v).items()):
                    if ck.startswith("__"):
                        continue
                    if isinstance(cv, (dict, list, set)):
                        snap.append(("cls", v, ck, cv, copy.copy(cv)))
                    elif isinstance(cv, _SIMPLE):
                        snap.append(("clsval", v, ck, cv, None))
    return snap


def _caches(prefix="molgri"):
    seen = set()
    for name, mod in list(sys.modules.items()):
        if mod is None or not (name == prefix or name.startswith(prefix + ".")):
            continue
        for v in list(vars(mod).values()):
            objs = [v]
            if isinstance(v, type) and getattr(v, "__module__", None) == name:
                objs += [getattr(x, "__func__", x) for x in vars(v).values()]
                objs += [getattr(x, "fget", None) for x in vars(v).values() if isinstance(x, property)]
            for f in objs:
                cc = getattr(f, "cache_clear", None)
                if callable(cc) and id(f) not in seen:
                    seen.add(id(f))
                    yield cc


def restore(snap, prefix="molgri"):
    for kind, holder, k, obj, saved in snap:
        if kind in ("mod", "cls"):
            # the container the code refers to (it may have been rebound meanwhile: put the original object back, then its content)
            cur = vars(holder).get(k)
            if cur is not obj:
                try:
                    setattr(holder, k, obj)
                except (AttributeError, TypeError):
                    pass
            if isinstance(obj, dict):
                obj.clear()
                obj.update(saved)
            elif isinstance(obj, list):
                obj[:] = saved
            else:
                obj.clear()
                obj.update(saved)
        else:
            cur = vars(holder).get(k, _SIMPLE)
            if cur is not obj and not (isinstance(cur, _SIMPLE) and cur == obj and type(cur) is type(obj)):
                try:
                    setattr(holder, k, obj)
                except (AttributeError, TypeError):
                    pass
    for cc in _caches(prefix):
        try:
            cc()
        except Exception:  # noqa: BLE001
            pass


class Guard:
    """snapshot on first use, restore on every later call"""

    def __init__(self):
        self.snap = None

    def __call__(self):
        if self.snap is None:
            self.snap = snapshot()
        restore(self.snap)


GUARD = Guard()
