"""symx.prove -- discharging obligations `premises |- claim` with z3 (python API) and an external portfolio.

Order of attack per obligation:
  1. premise slicing: the harness-named premises only (fewer premises can make `unsat` harder, never unsound);
  2. the full premise set with the z3 python API;
  3. portfolio: the same SMT-LIB2 text to /usr/bin/z3 (4.8.12) and the cvc5 binary, explicit `(set-logic ALL)`;
     any `(error` line voids that solver's answer; sat/unsat disagreement is inconclusive.
Verdicts: 'proved' (unsat), 'cex' (sat, with a model as {name: Fraction|float}), 'unknown'.
Nothing here ever turns `unknown` into success.
"""
import fractions
import os
import re
import shutil
import subprocess
import tempfile
import time

import z3

Z3_BIN = "/usr/bin/z3" if os.path.exists("/usr/bin/z3") else None
CVC5_BIN = shutil.which("cvc5")


class Result:
    __slots__ = ("name", "verdict", "dt", "solver", "model", "note")

    def __init__(self, name, verdict, dt, solver, model=None, note=""):
        self.name, self.verdict, self.dt, self.solver, self.model, self.note = name, verdict, dt, solver, model, note

    def as_tuple(self):
        return (self.name, self.verdict, round(self.dt, 4), self.solver)

    def __repr__(self):
        return f"Result{self.as_tuple()}"


def _val(v):
    """z3 numeral -> Fraction (algebraic numbers approximated to 30 digits)"""
    if z3.is_int_value(v):
        return fractions.Fraction(v.as_long())
    if z3.is_rational_value(v):
        return v.as_fraction()
    if z3.is_algebraic_value(v):
        return v.approx(30).as_fraction()
    if z3.is_true(v):
        return True
    if z3.is_false(v):
        return False
    return None


def model_to_dict(m):
    out = {}
    for d in m.decls():
        if d.arity() == 0:
            x = _val(m[d])
            if x is not None:
                out[d.name()] = x
    return out


_DEF = re.compile(r"\(define-fun\s+(\S+)\s+\(\)\s+(Real|Int|Bool)\s+(.*?)\)\s*(?=\(define-fun|\)\s*$|$)", re.S)


def _parse_num(t):
    t = t.strip()
    if t in ("true", "false"):
        return t == "true"
    m = re.fullmatch(r"\(-\s+(.*)\)", t, re.S)
    if m:
        x = _parse_num(m.group(1))
        return None if x is None else -x
    m = re.fullmatch(r"\(/\s+(\S+)\s+(\S+)\)", t)
    if m:
        a, b = _parse_num(m.group(1)), _parse_num(m.group(2))
        return None if a is None or b is None or b == 0 else fractions.Fraction(a) / fractions.Fraction(b)
    try:
        return fractions.Fraction(t)
    except (ValueError, ZeroDivisionError):
        return None


def parse_model_text(txt):
    out = {}
    for nm, _sort, body in _DEF.findall(txt):
        x = _parse_num(body)
        if x is not None:
            out[nm.strip("|")] = x
    return out


class Prover:
    def __init__(self, timeout_ms=20000, ext_timeout_s=60, portfolio=True, budget_s=None):
        self.timeout_ms = timeout_ms
        # wall-clock budget for all queries of this prover (one shape): once it is used up every further obligation is
        # reported `unknown` (inconclusive) instead of being attempted -- a check must end in bounded time
        self.deadline = (time.time() + budget_s) if budget_s else None
        self.ext_timeout_s = ext_timeout_s
        self.portfolio = portfolio
        self.stats = dict(queries=0, proved=0, cex=0, unknown=0, solver_time=0.0, sliced=0, portfolio_calls=0,
                          by_solver={}, batched=0)

    # ------------------------------------------------------------------
    def _left_ms(self, timeout_ms):
        if self.deadline is None:
            return timeout_ms
        return max(0, min(timeout_ms, int((self.deadline - time.time()) * 1000)))

    def _z3py(self, premises, claim, timeout_ms):
        s = z3.Solver()
        timeout_ms = self._left_ms(timeout_ms)
        if timeout_ms < 50:
            self.stats["budget_exhausted"] = self.stats.get("budget_exhausted", 0) + 1
            return z3.unknown, s, 0.0
        s.set("timeout", int(timeout_ms))
        s.add(*premises)
        s.add(z3.Not(claim))
        t = time.time()
        r = s.check()
        dt = time.time() - t
        self.stats["queries"] += 1
        self.stats["solver_time"] += dt
        return r, s, dt

    def _external(self, solver_obj):
        txt = solver_obj.to_smt2().replace("(set-info :status unknown)", "")
        txt = "(set-logic ALL)\n(set-option :produce-models true)\n" + txt + "\n(get-model)\n"
        fd, fn = tempfile.mkstemp(suffix=".smt2", prefix="symx_")
        with os.fdopen(fd, "w") as f:
            f.write(txt)
        cmds = {}
        ext_s = max(1, min(self.ext_timeout_s, self._left_ms(10**9) // 1000))
        if Z3_BIN:
            cmds["z3-4.8.12"] = [Z3_BIN, f"-T:{ext_s}", fn]
        if CVC5_BIN:
            cmds["cvc5-1.0.3"] = [CVC5_BIN, f"--tlimit={ext_s * 1000}", fn]
        procs = {nm: subprocess.Popen(c, stdout=subprocess.PIPE, stderr=subprocess.STDOUT, text=True) for nm, c in cmds.items()}
        res = {}
        t0 = time.time()
        try:
            for nm, p in procs.items():
                try:
                    o, _ = p.communicate(timeout=ext_s + 10)
                except subprocess.TimeoutExpired:
                    p.kill()
                    o = "timeout"
                first = o.strip().split("\n")[0].strip() if o.strip() else "empty"
                if first == "unsat":
                    # `(get-model)` after unsat legitimately prints an error line; anything else is void
                    bad = [l for l in o.split("\n")[1:] if "(error" in l and "model is not available" not in l
                           and "unsat" not in l.lower() and "Cannot get model" not in l]
                    res[nm] = ("unsat", None) if not bad else ("error", None)
                elif first == "sat":
                    res[nm] = ("sat", parse_model_text(o)) if "(error" not in o else ("error", None)
                else:
                    res[nm] = ("unknown" if "(error" not in first else "error", None)
        finally:
            os.unlink(fn)
        dt = time.time() - t0
        self.stats["portfolio_calls"] += 1
        self.stats["solver_time"] += dt
        return res, dt

    def _count(self, verdict, solver):
        self.stats[verdict] += 1
        self.stats["by_solver"][solver] = self.stats["by_solver"].get(solver, 0) + 1

    def prove(self, name, premises, claim, slice_=None, timeout_ms=None, portfolio=None):
        timeout_ms = timeout_ms or self.timeout_ms
        total = 0.0
        if z3.is_true(z3.simplify(claim)):
            self._count("proved", "simplify")
            return Result(name, "proved", 0.0, "simplify")
        if slice_ is not None:
            r, s, dt = self._z3py(slice_, claim, min(timeout_ms, 5000))
            total += dt
            if r == z3.unsat:
                self.stats["sliced"] += 1
                self._count("proved", "z3-5.1(sliced)")
                return Result(name, "proved", total, "z3-5.1(sliced)")
        r, s, dt = self._z3py(premises, claim, timeout_ms)
        total += dt
        if r == z3.unsat:
            self._count("proved", "z3-5.1")
            return Result(name, "proved", total, "z3-5.1")
        if r == z3.sat:
            self._count("cex", "z3-5.1")
            return Result(name, "cex", total, "z3-5.1", model_to_dict(s.model()))
        if (portfolio if portfolio is not None else self.portfolio) and self._left_ms(10**9) > 2000:
            res, dt = self._external(s)
            total += dt
            verdicts = {v[0] for v in res.values()}
            if "unsat" in verdicts and "sat" not in verdicts:
                who = "+".join(k for k, v in res.items() if v[0] == "unsat")
                self._count("proved", who)
                return Result(name, "proved", total, who, note=str({k: v[0] for k, v in res.items()}))
            if "sat" in verdicts and "unsat" not in verdicts:
                who, mod = next((k, v[1]) for k, v in res.items() if v[0] == "sat")
                if mod:
                    self._count("cex", who)
                    return Result(name, "cex", total, who, mod)
            self._count("unknown", "portfolio")
            return Result(name, "unknown", total, "portfolio", note=str({k: v[0] for k, v in res.items()}))
        self._count("unknown", "z3-5.1")
        return Result(name, "unknown", total, "z3-5.1", note=s.reason_unknown())

    def prove_all(self, premises, named_claims, slice_=None, timeout_ms=None, batch=True, max_cex=4):
        """discharge many claims under the same premises.

        The conjunction is tried first.  If the solver refutes it with a model, the claims that are false in that
        model are reported as `cex` (with that model) and the rest is batched again; `unknown` falls back to
        one query per claim.  After `max_cex` counterexamples the remaining claims are left `skipped`
        (verdict 'unknown', note 'skipped after counterexamples') -- a broken tree must fail fast.
        """
        todo = list(named_claims)
        out = {}
        ncex = 0
        timeout_ms = timeout_ms or self.timeout_ms
        while todo:
            if ncex >= max_cex:
                for nm, _ in todo:
                    out[nm] = Result(nm, "unknown", 0.0, "none", note="skipped after counterexamples")
                break
            if not batch or len(todo) == 1:
                for nm, c in todo:
                    out[nm] = self.prove(nm, premises, c, slice_=slice_, timeout_ms=timeout_ms)
                break
            conj = z3.And([c for _, c in todo])
            r = None
            if slice_ is not None:
                r, s, dt = self._z3py(slice_, conj, min(timeout_ms, 10000))
                if r != z3.unsat:
                    r = None
            if r is None:
                r, s, dt = self._z3py(premises, conj, timeout_ms)
            if r == z3.unsat:
                self.stats["batched"] += len(todo)
                each = dt / len(todo)
                for nm, _ in todo:
                    self._count("proved", "z3-5.1(batch)")
                    out[nm] = Result(nm, "proved", each, "z3-5.1(batch)")
                break
            if r == z3.sat:
                m = s.model()
                md = model_to_dict(m)
                false_now = [(nm, c) for nm, c in todo if z3.is_false(m.eval(c, model_completion=True))]
                if not false_now:  # model does not pin one down (UF / partial model): go one by one
                    for nm, c in todo:
                        out[nm] = self.prove(nm, premises, c, slice_=slice_, timeout_ms=timeout_ms)
                    break
                for nm, c in false_now:
                    self._count("cex", "z3-5.1(batch)")
                    out[nm] = Result(nm, "cex", dt / len(false_now), "z3-5.1(batch)", md)
                    ncex += 1
                gone = {nm for nm, _ in false_now}
                todo = [(nm, c) for nm, c in todo if nm not in gone]
                continue
            # unknown on the conjunction: individual queries (each with slicing / portfolio)
            for nm, c in todo:
                out[nm] = self.prove(nm, premises, c, slice_=slice_, timeout_ms=timeout_ms)
                if out[nm].verdict == "cex":
                    ncex += 1
                    if ncex >= max_cex:
                        break
            for nm, _ in todo:
                out.setdefault(nm, Result(nm, "unknown", 0.0, "none", note="skipped after counterexamples"))
            break
        return [out[nm] for nm, _ in named_claims]

    def nice_model(self, premises, claim, nice, timeout_ms=10000):
        """after a `cex`: look for a counterexample inside a replay-friendly box (moderate magnitudes, generic values)"""
        s = z3.Solver()
        s.set("timeout", int(timeout_ms))
        s.add(*premises)
        s.add(*nice)
        s.add(z3.Not(claim))
        t = time.time()
        r = s.check()
        self.stats["queries"] += 1
        self.stats["solver_time"] += time.time() - t
        return model_to_dict(s.model()) if r == z3.sat else None

    def satisfiable(self, premises, timeout_ms=None):
        """vacuity twin: are the premises of this path satisfiable (is the claim `False` refuted)?"""
        s = z3.Solver()
        s.set("timeout", int(timeout_ms or self.timeout_ms))
        s.add(*premises)
        t = time.time()
        r = s.check()
        self.stats["solver_time"] += time.time() - t
        self.stats["queries"] += 1
        if r == z3.unknown and self.portfolio:
            s2 = z3.Solver()
            s2.add(*premises)
            s2.add(z3.Not(z3.BoolVal(False)))
            res, _ = self._external(s2)
            vs = {v[0] for v in res.values()}
            if "sat" in vs and "unsat" not in vs:
                return "sat"
            if "unsat" in vs and "sat" not in vs:
                return "unsat"
        return str(r)


def purify(terms):
    """replace every non-constant division a/b by a fresh variable q with the side condition q*b == a.

    Returns (new_terms, side_conditions).  Sound under the premise b != 0 that the caller must have on the path (real
    division by zero is unconstrained in SMT-LIB; the targets only divide by norms/sums the path keeps non-zero).
    Direct encodings with `/` were `unknown` in every solver for the direction-assignment lemma; the purified ones are
    decided in a second (DESIGN section 2).
    """
    cache = {}
    side = []
    counter = [0]

    def go(t):
        k = t.get_id()
        if k in cache:
            return cache[k]
        if z3.is_app(t) and t.num_args() > 0:
            ch = [go(c) for c in t.children()]
            if t.decl().kind() == z3.Z3_OP_DIV and not z3.is_rational_value(z3.simplify(ch[1])):
                counter[0] += 1
                q = z3.Real(f"quot!{counter[0]}")
                side.append(q * ch[1] == ch[0])
                r = q
            else:
                r = t.decl()(*ch) if any(c.get_id() != o.get_id() for c, o in zip(ch, t.children())) else t
        else:
            r = t
        cache[k] = r
        return r
    return [go(t) for t in terms], side
