"""symx.runner -- drives one property's harness: model self-test, shapes on a worker pool, replay, evidence, exit code.

Exit codes: 0 no violation among the obligations explored (KNOWN-FINDING / INCONCLUSIVE lines are informational);
            1 at least one violation that reproduces on the real code and is not a listed known finding;
            2 harness error (model self-test, vacuity twin, non-reproducing model, unsupported operation).
"""
import argparse
import hashlib
import importlib
import json
import multiprocessing as mp
import os
import sys
import time
import traceback

ROOT = os.path.dirname(os.path.dirname(os.path.abspath(__file__)))
# development runs against a patched copy (VERIF_REPO != /repo) must not overwrite the committed evidence
_DEV = os.environ.get("VERIF_REPO", "/repo") != "/repo"
EVID = os.environ.get("VERIF_EVIDENCE_DIR") or (os.path.join("/tmp", "verif_dev_evidence") if _DEV else os.path.join(ROOT, "evidence"))
REPLAYS = os.path.join("/tmp", "verif_dev_replays") if _DEV else os.path.join(ROOT, "replays")
KNOWN = os.path.join(ROOT, "known_findings.json")


class Acc:
    """per-shape accumulator used by harnesses"""

    def __init__(self, shape):
        self.shape = shape
        self.paths = 0
        self.obligations = 0
        self.proved = 0
        self.inconclusive = []
        self.violations = []
        self.samples = []
        self.reachable = None
        self.t0 = time.time()
        self.extra = {}

    def add(self, results, make_cex=None):
        """results: list[prove.Result]; make_cex(result) -> dict of concrete inputs for replay"""
        for r in results:
            self.obligations += 1
            if r.verdict == "proved":
                self.proved += 1
            elif r.verdict == "cex":
                cex = {"obligation": r.name, "kind": "value", "solver": r.solver,
                       "model": {k: (str(v) if not isinstance(v, bool) else v) for k, v in (r.model or {}).items()}}
                if make_cex is not None:
                    cex.update(make_cex(r))
                self.violations.append(cex)
            elif r.note == "skipped after counterexamples":
                self.obligations -= 1
                self.extra["skipped_after_cex"] = self.extra.get("skipped_after_cex", 0) + 1
            else:
                self.inconclusive.append({"obligation": r.name, "solver": r.solver, "note": r.note[:200]})
            if len(self.samples) < 6:
                self.samples.append(list(r.as_tuple()))

    def begin(self, prover, path):
        """called once per explored path"""
        self.paths += 1
        self._prover, self._path, self._feas = prover, path, None

    def _path_feasible(self):
        """feasibility of the current path: the explored path set over-approximates (an `unknown` branch check counts as
        feasible), so a solver-free (structural) failure is only a violation if the path is confirmed satisfiable"""
        if getattr(self, "_path", None) is None:
            return "sat"
        if self._feas is None:
            self._feas = self._prover.satisfiable(self._path.premises, timeout_ms=20000)
        return self._feas

    def reach(self, verdict):
        """vacuity twin bookkeeping: True once some path's premises are satisfiable; False only if every checked path is unsat"""
        if verdict == "sat":
            self.reachable = True
        elif verdict == "unsat" and self.reachable is None:
            self.reachable = False

    def structural(self, name, ok, detail=None, cex=None):
        """an obligation decided without the solver on this path (shape of the result, exception type, index list)"""
        self.obligations += 1
        if ok:
            self.proved += 1
        elif self._path_feasible() == "unsat":
            self.obligations -= 1
            self.extra["spurious_paths_dropped"] = self.extra.get("spurious_paths_dropped", 0) + 1
        elif self._path_feasible() != "sat":
            self.inconclusive.append({"obligation": name, "solver": "feasibility", "note": "structural failure on a path whose feasibility is unknown"})
        else:
            c = {"obligation": name, "kind": "structural", "detail": detail}
            if cex:
                c.update(cex)
            self.violations.append(c)

    def result(self, engine_stats, prover_stats):
        return {"shape": self.shape, "paths": self.paths, "obligations": self.obligations, "proved": self.proved,
                "inconclusive": self.inconclusive, "violations": self.violations, "samples": self.samples,
                "reachable": self.reachable, "wall": time.time() - self.t0,
                "engine": {k: (round(v, 3) if isinstance(v, float) else v) for k, v in engine_stats.items()},
                "prover": prover_stats, "extra": self.extra}


def _work(args):
    modname, shape = args
    try:
        mod = importlib.import_module(modname)
        return mod.run_shape(shape)
    except BaseException:  # noqa: BLE001 - includes Unsupported / PathAbort leaks: all harness errors
        return {"shape": shape, "error": traceback.format_exc()}


def load_known():
    if not os.path.exists(KNOWN):
        return {"known": [], "fixed": []}
    with open(KNOWN) as f:
        return json.load(f)


def _digest(obj):
    return hashlib.sha1(json.dumps(obj, sort_keys=True, default=str).encode()).hexdigest()[:12]


def run_property(pid, tier, seed, jobs=None):
    t0 = time.time()
    modname = f"harness.{pid.lower()}"
    mod = importlib.import_module(modname)
    os.makedirs(EVID, exist_ok=True)
    os.makedirs(REPLAYS, exist_ok=True)
    harness_errors = []

    # 1. differential self-test of the environment models this harness uses (concrete, against the real libraries)
    try:
        n_selftests = int(mod.selftest(seed))
    except Exception:  # noqa: BLE001
        n_selftests = 0
        harness_errors.append("model self-test failed:\n" + traceback.format_exc())

    shapes = mod.shapes(tier, seed)
    jobs = jobs or int(os.environ.get("VERIF_JOBS", "16"))
    results = []
    known = load_known()
    confirmed, known_hits, nonrepro = [], [], []
    out_of_time = 0
    replays_done = 0
    seen_keys = set()
    stopped_early = False

    def triage(r):
        """replay every counterexample of one shape against the real, unpatched code"""
        nonlocal replays_done
        for cex in r.get("violations", []):
            cex = dict(cex)
            cex["shape"] = r["shape"]
            cex["property"] = pid
            key = mod.finding_key(cex) if hasattr(mod, "finding_key") else f"{pid}:{cex['obligation']}"
            cex["finding_key"] = key
            if key in seen_keys and len(confirmed) + len(known_hits) > 0:
                continue  # same finding already confirmed once: do not replay hundreds of siblings
            try:
                from symx.hygiene import GUARD
                GUARD()     # a replay starts from the module / class level state of a fresh process, like every explored path
                rep = mod.replay(cex)
            except Exception:  # noqa: BLE001
                rep = {"reproduced": False, "detail": "replay crashed:\n" + traceback.format_exc()}
            replays_done += 1
            cex["replay"] = rep
            if not rep.get("reproduced"):
                nonrepro.append(cex)
                continue
            hit = next((k for k in known.get("known", []) if k["property"] == pid and k["key"] == key), None)
            if hit:
                if key not in seen_keys:
                    known_hits.append((hit, cex))
            else:
                confirmed.append(cex)
            seen_keys.add(key)

    if not harness_errors:
        ctx = mp.get_context("forkserver")   # workers are (re)started from a clean single-threaded server: a fork of the main process while it replays a counterexample can inherit a held lock and never start
        n = max(1, min(jobs, len(shapes)))
        pool = ctx.Pool(processes=n, maxtasksperchild=int(getattr(mod, "MAXTASKS", 25)))
        try:
            t_first = None
            it = pool.imap_unordered(_work, [(modname, s) for s in shapes], chunksize=1)
            pending = len(shapes)
            # a check must end in bounded time also on a tree where the cheap proofs stop working (e.g. a refactoring that is an identity
            # over the reals but not for the solver): when the wall-clock budget of the tier is used up the remaining shapes are not
            # explored and are reported as such -- never as held
            budget = float(os.environ.get("VERIF_BUDGET_S") or getattr(mod, "BUDGET_S", {}).get(tier, 1500 if tier == "quick" else 3600))
            while pending:
                if time.time() - t0 > budget:
                    out_of_time = pending
                    break
                try:
                    r = it.next(timeout=2.0)
                except mp.TimeoutError:
                    r = None
                if r is not None:
                    pending -= 1
                    results.append(r)
                    if "error" not in r:
                        triage(r)
                if confirmed and t_first is None:
                    t_first = time.time()
                # a broken tree must fail fast: once a violation is confirmed, collect a little more and stop
                if t_first is not None and (time.time() - t_first > 15 or len({c["finding_key"] for c in confirmed}) >= 3):
                    stopped_early = pending > 0
                    break
                if sum(1 for x in results if "error" in x) >= 3:
                    stopped_early = pending > 0
                    break
        finally:
            pool.terminate()
            pool.join()
    for r in results:
        if "error" in r:
            harness_errors.append(f"shape {r['shape']}:\n{r['error']}")
    # assumptions a harness re-checks concretely and reports after the exploration (a confirmed violation takes precedence, see below)
    harness_errors.extend(getattr(mod, "DEFERRED_ERRORS", []))

    ok = [r for r in results if "error" not in r]
    paths = sum(r["paths"] for r in ok)
    obligations = sum(r["obligations"] for r in ok)
    proved = sum(r["proved"] for r in ok)
    inconcl = [(r["shape"], i) for r in ok for i in r["inconclusive"]]
    queries = sum(r["prover"]["queries"] for r in ok)
    solver_time = sum(r["prover"]["solver_time"] for r in ok) + sum(r["engine"].get("feas_time", 0) for r in ok)
    by_solver = {}
    for r in ok:
        for k, v in r["prover"]["by_solver"].items():
            by_solver[k] = by_solver.get(k, 0) + v
    unreachable = [r["shape"] for r in ok if r["reachable"] is False]
    if unreachable:
        harness_errors.append(f"vacuity twin failed (no satisfiable path) for shapes {unreachable[:5]}")
    # A solver model that does not reproduce on the real code (an interpretation of an uninterpreted function no real function has,
    # a float effect outside the real-number model, a path the engine only assumed feasible) is NOT a violation and not a harness
    # failure either: the obligation is inconclusive.  The replay on the real code is the arbiter of what is reported as VIOLATION.
    if out_of_time:
        inconcl.append(({"not_explored": out_of_time}, {"obligation": f"{out_of_time} of {len(shapes)} shapes not explored: wall-clock budget of the tier used up",
                                                       "solver": "none", "note": "time budget"}))
    for cex in nonrepro:
        inconcl.append((cex["shape"], {"obligation": cex["obligation"], "solver": cex.get("solver", "?"),
                                       "note": "solver model did not reproduce on the real code: " + str(cex["replay"].get("detail"))[:160]}))

    # 3. report
    for hit, cex in known_hits:
        print(f"KNOWN-FINDING: property={pid} {hit['what']}")
    for shape, i in inconcl[:20]:
        print(f"INCONCLUSIVE property={pid} obligation={i['obligation']} shape={json.dumps(shape, default=str)[:120]}")
    viol_files = []
    by_key = {}
    for cex in confirmed:
        by_key.setdefault(cex["finding_key"], cex)
    for key, cex in by_key.items():
        fn = os.path.join(REPLAYS, f"{pid}-{_digest(cex)}.json")
        cex["replay_cmd"] = f"./check --replay {fn}"
        with open(fn, "w") as f:
            json.dump(cex, f, indent=1, default=str)
        viol_files.append(fn)
        print(f"VIOLATION property={pid} replay={fn}")
        print(f"  obligation={cex['obligation']} shape={json.dumps(cex['shape'], default=str)[:200]} "
              f"detail={str(cex['replay'].get('detail'))[:300]}")

    wall = time.time() - t0
    samples = []
    for r in ok[:3]:
        samples.append({"shape": r["shape"], "paths": r["paths"], "obligations": r["obligations"],
                        "first_obligations[name,verdict,seconds,solver]": r["samples"][:4]})
    ev = {
        "property_id": pid, "tier": tier, "seed": seed, "level": "model_checking",
        "coverage": {
            "states": max(paths, 1) if ok else 0, "transitions": max(queries, 1) if ok else 0,
            "traces_validated_against_impl": n_selftests + replays_done,
            "samples": samples or [{"note": "no shape completed"}],
            "explanation": "bounded symbolic execution of the real functions; states = feasible paths executed, "
                           "transitions = solver queries discharged, traces_validated = model self-tests + replays",
            "obligations": obligations, "discharged": proved, "inconclusive": len(inconcl),
            "violations_confirmed": len(by_key), "known_findings_hit": [h[0]["key"] for h in known_hits],
            "shapes": len(shapes), "shapes_completed": len(ok), "shapes_not_explored_time_budget": out_of_time, "stopped_early_on_violation": stopped_early,
            "non_reproducing_models": len(nonrepro),
            "functions_encoded": getattr(mod, "FUNCTIONS", []),
            "bounds": mod.bounds(tier) if hasattr(mod, "bounds") else {},
            "outside_claim": getattr(mod, "OUTSIDE", []),
            "stubs_and_models": getattr(mod, "STUBS", []),
            "solver_time_s": round(solver_time, 2), "solvers": by_solver,
            "feasibility_unknown_treated_feasible": sum(r["engine"].get("feas_unknown", 0) for r in ok),
            "decisions_by_sign_analysis": sum(r["engine"].get("by_sign", 0) for r in ok),
            "branches_refuted_on_the_linear_relaxation": sum(r["engine"].get("feas_relaxed", 0) for r in ok),
            "linear_branches_taken_feasible_on_the_linear_relaxation": sum(r["engine"].get("feas_trusted", 0) for r in ok),
            "sqrt_of_unit_norm_as_constant": sum(r["engine"].get("sqrt_constants", 0) for r in ok),
            "reachability_twins_sat": sum(1 for r in ok if r["reachable"]),
            "exhaustive": False,
            "repo_head": _repo_head(),
        },
        "assumptions": getattr(mod, "ASSUMPTIONS", []),
        "wall_s": round(wall, 2),
        "violations": len(by_key),
    }
    if harness_errors:
        ev["coverage"]["harness_errors"] = [h[:2000] for h in harness_errors[:5]]
    with open(os.path.join(EVID, f"{pid}.json"), "w") as f:
        json.dump(ev, f, indent=1, default=str)

    print(f"[{pid}] tier={tier} shapes={len(ok)}/{len(shapes)} paths={paths} obligations={obligations} proved={proved} "
          f"inconclusive={len(inconcl)} violations={len(by_key)} known={len(known_hits)} queries={queries} "
          f"solver_time={solver_time:.1f}s wall={wall:.1f}s selftests={n_selftests}")
    if by_key:
        return 1
    if harness_errors:
        for h in harness_errors[:5]:
            print("HARNESS-ERROR:", h[:3000], file=sys.stderr)
        return 2
    return 0


def _repo_head():
    try:
        import subprocess
        repo = os.environ.get("VERIF_REPO", "/repo")
        h = subprocess.run(["git", "-C", repo, "rev-parse", "--short", "HEAD"], capture_output=True, text=True).stdout.strip()
        d = subprocess.run(["git", "-C", repo, "status", "--porcelain", "--untracked-files=no"], capture_output=True, text=True).stdout.strip()
        return h + ("+dirty" if d else "")
    except Exception:  # noqa: BLE001
        return "unknown"


def replay_file(path):
    with open(path) as f:
        cex = json.load(f)
    mod = importlib.import_module(f"harness.{cex['property'].lower()}")
    rep = mod.replay(cex)
    print(json.dumps(rep, indent=1, default=str))
    if rep.get("reproduced"):
        print(f"VIOLATION property={cex['property']} replay={path}")
        return 1
    return 0


def main(argv=None):
    ap = argparse.ArgumentParser()
    ap.add_argument("property", nargs="?")
    ap.add_argument("--tier", default=os.environ.get("VERIF_TIER", "quick"), choices=["quick", "thorough"])
    ap.add_argument("--replay")
    ap.add_argument("--jobs", type=int)
    a = ap.parse_args(argv)
    seed = int(os.environ.get("VERIF_SEED", "0") or 0)
    if a.replay:
        return replay_file(a.replay)
    return run_property(a.property.upper(), a.tier, seed, a.jobs)


if __name__ == "__main__":
    sys.exit(main())
