"""symx.core -- z3-backed scalars and a path-forking engine (re-execution with a decision prefix).

The real molgri function objects are executed on these values.  `SR` wraps a z3 Real term, `SB` a z3 Bool term.
`bool(SB)` / `bool(SR)` ask the current Engine to decide the branch: both sides are explored (depth first, by
re-running the function with a recorded prefix of decisions), infeasible sides are pruned with the solver, an
`unknown` feasibility answer is treated as feasible (over-approximation of the path set: sound for proving, and every
counterexample is replayed against the real code before it is reported).
"""
import fractions
import time

import z3


class PathAbort(BaseException):
    """abandon an infeasible path (BaseException so that `except Exception` in target code cannot swallow it)"""


class Unsupported(BaseException):
    """the target used an operation the symbolic layer does not model -> harness error, never a verdict"""


class SymbolicAsInteger(TypeError):
    """a real-valued symbolic scalar reached a place that needs a machine integer"""


class Path:
    __slots__ = ("pc", "axioms", "kind", "value", "decisions", "tb", "sqrts")

    def __init__(self, pc, axioms, kind, value, decisions, tb=None, sqrts=None):
        self.pc, self.axioms, self.kind, self.value, self.decisions, self.tb = pc, axioms, kind, value, decisions, tb
        self.sqrts = sqrts or {}

    def sqrt_of(self, term):
        """the fresh variable the engine introduced for sqrt(term) on this path (None if the code never took it)"""
        t = z3.simplify(term)
        hit = self.sqrts.get(t.get_id())
        if hit is not None and hit[2].eq(t):
            return hit[1]
        for (_, var, simp) in self.sqrts.values():
            if simp.eq(t):
                return var
        return None

    @property
    def premises(self):
        return list(self.pc) + list(self.axioms)


class Engine:
    cur = None
    decide_timeout_ms = 3000

    def __init__(self):
        self.stats = dict(paths=0, decisions=0, by_sign=0, feas_checks=0, feas_time=0.0, feas_unknown=0, aborted=0)
        self.ufs = {}
        self.signs = {}
        self.base_assumptions = ()
        self.max_paths = 200000

    # ------------------------------------------------------------------ path exploration
    def explore(self, fn):
        """run fn() once per feasible path; yields Path objects"""
        import traceback
        from symx.hygiene import GUARD
        work = [[]]
        while work:
            prefix = work.pop()
            GUARD()     # every path starts from the module / class level state of a fresh process
            self.prefix = prefix
            self.pos = 0
            self.pc = list(self.base_assumptions)
            self.newwork = []
            self.axioms = []
            self.cache = {}
            self._acos_args = []
            self._sqrt_args = {}
            self._fresh = 0
            Engine.cur = self
            tb = None
            try:
                res = ("ok", fn())
            except PathAbort:
                res = None
                self.stats["aborted"] += 1
            except Unsupported:
                raise
            except Exception as e:  # noqa: BLE001 - exceptions of the target are results
                tb = traceback.format_exc()
                res = ("exc", e)
            finally:
                Engine.cur = None
            work.extend(self.newwork)
            if res is not None:
                self.stats["paths"] += 1
                yield Path(list(self.pc), list(self.axioms), res[0], res[1], list(self.prefix[:self.pos]), tb,
                           dict(self._sqrt_args))
            if self.stats["paths"] > self.max_paths:
                raise Unsupported("path budget exceeded")

    def assume_global(self, *bs):
        self.base_assumptions = tuple(self.base_assumptions) + tuple(bs)

    def fresh(self, name, sort="real"):
        self._fresh += 1
        nm = f"{name}!{self._fresh}"
        return z3.Real(nm) if sort == "real" else z3.Int(nm) if sort == "int" else z3.Bool(nm)

    relax_nonlinear = False
    # with relax_nonlinear: a LINEAR branch condition that is satisfiable together with the linear part of the path condition is taken as
    # feasible without asking the NRA procedure (counted in feas_trusted).  Like `unknown`, this can only add paths: a path that is
    # infeasible in truth has unsatisfiable premises, so its obligations hold vacuously and a failure on it cannot be replayed.
    trust_relaxation = False
    sqrt_known_constants = False
    _lin_memo = None

    def _is_linear(self, t):
        """no product / quotient / power of two non-constant terms anywhere in t (memoised per term id)"""
        memo = self._lin_memo
        if memo is None:
            memo = self._lin_memo = {}
        stack = [t]
        order = []
        while stack:
            x = stack.pop()
            if x.get_id() in memo:
                continue
            order.append(x)
            stack.extend(x.children())
        for x in reversed(order):
            k = x.get_id()
            if k in memo:
                continue
            ok = all(memo.get(c.get_id(), True) for c in x.children())
            if ok and z3.is_app(x):
                kind = x.decl().kind()
                if kind == z3.Z3_OP_MUL:
                    ok = sum(1 for c in x.children() if not (z3.is_rational_value(c) or z3.is_int_value(c))) <= 1
                elif kind in (z3.Z3_OP_DIV, z3.Z3_OP_IDIV, z3.Z3_OP_MOD, z3.Z3_OP_REM):
                    ok = z3.is_rational_value(x.arg(1)) or z3.is_int_value(x.arg(1))
                elif kind == z3.Z3_OP_POWER:
                    ok = False
            memo[k] = ok
        return memo[t.get_id()]

    def _check(self, *extra):
        if self.relax_nonlinear:
            # sound pre-filter: the linear part of the path condition alone already excludes the branch (unsat stays unsat when the
            # nonlinear premises are added); decided by simplex in milliseconds where the full query would need the NRA procedure
            lin = [p for p in list(self.pc) + list(self.axioms) + list(extra) if self._is_linear(p)]
            if len(lin) < len(self.pc) + len(self.axioms) + len(extra):
                s0 = z3.Solver()
                s0.set("timeout", self.decide_timeout_ms)
                s0.add(*lin)
                t = time.time()
                r0 = s0.check()
                self.stats["feas_time"] += time.time() - t
                if r0 == z3.unsat:
                    self.stats["feas_checks"] += 1
                    self.stats["feas_relaxed"] = self.stats.get("feas_relaxed", 0) + 1
                    return r0
                if r0 == z3.sat and self.trust_relaxation and all(self._is_linear(e) for e in extra):
                    self.stats["feas_checks"] += 1
                    self.stats["feas_trusted"] = self.stats.get("feas_trusted", 0) + 1
                    return r0
        s = z3.Solver()
        s.set("timeout", self.decide_timeout_ms)
        s.add(*self.pc)
        s.add(*self.axioms)
        s.add(*extra)
        t = time.time()
        r = s.check()
        self.stats["feas_time"] += time.time() - t
        self.stats["feas_checks"] += 1
        if r == z3.unknown:
            self.stats["feas_unknown"] += 1
        return r

    # ------------------------------------------------------------------ cheap sound sign analysis
    def declare_sign(self, v, sg):
        self.signs[v.get_id()] = sg

    def sign(self, t):
        sg = self.signs
        memo = {}

        def go(t):
            k = t.get_id()
            if k in memo:
                return memo[k]
            r = "?"
            if z3.is_rational_value(t) or z3.is_int_value(t):
                f = t.as_fraction() if z3.is_rational_value(t) else t.as_long()
                r = "+" if f > 0 else "-" if f < 0 else "0"
            elif k in sg:
                r = sg[k]
            elif z3.is_app(t):
                kind = t.decl().kind()
                ch = [go(c) for c in t.children()] if kind != z3.Z3_OP_ITE else None
                if kind == z3.Z3_OP_UMINUS:
                    r = {"+": "-", "-": "+", "0": "0"}.get(ch[0], "?")
                elif kind in (z3.Z3_OP_MUL, z3.Z3_OP_DIV):
                    if "0" in ch[:1] or (kind == z3.Z3_OP_MUL and "0" in ch):
                        r = "0"
                    elif all(c in "+-" for c in ch):
                        r = "+" if sum(c == "-" for c in ch) % 2 == 0 else "-"
                elif kind == z3.Z3_OP_ADD:
                    nz = [c for c in ch if c != "0"]
                    if not nz:
                        r = "0"
                    elif all(c == "+" for c in nz):
                        r = "+"
                    elif all(c == "-" for c in nz):
                        r = "-"
                elif kind == z3.Z3_OP_SUB and len(ch) == 2:
                    if ch[0] in "+0" and ch[1] in "-0" and (ch[0] + ch[1]) != "00":
                        r = "+"
                    elif ch[0] in "-0" and ch[1] in "+0" and (ch[0] + ch[1]) != "00":
                        r = "-"
                    elif ch == ["0", "0"]:
                        r = "0"
                elif kind == z3.Z3_OP_ITE:
                    a, b = go(t.arg(1)), go(t.arg(2))
                    r = a if a == b else "?"
                elif kind == z3.Z3_OP_UNINTERPRETED and t.decl().name() == "exp":
                    r = "+"
                elif kind == z3.Z3_OP_TO_REAL:
                    r = go(t.arg(0))
            memo[k] = r
            return r

        return go(t)

    def _by_sign(self, b):
        """settle comparisons with zero syntactically; True/False/None"""
        neg = False
        while z3.is_not(b):
            b = b.arg(0)
            neg = not neg
        if not z3.is_app(b) or b.num_args() != 2:
            return None
        k = b.decl().kind()
        l, r = b.arg(0), b.arg(1)
        if not (z3.is_arith(l) and z3.is_arith(r)):
            return None
        sl, sr = self.sign(l), self.sign(r)
        if sr != "0" and sl != "0":
            return None
        if sl == "0" and sr != "0":
            l, r, sl, sr = r, l, sr, sl
            k = {z3.Z3_OP_LT: z3.Z3_OP_GT, z3.Z3_OP_GT: z3.Z3_OP_LT, z3.Z3_OP_LE: z3.Z3_OP_GE,
                 z3.Z3_OP_GE: z3.Z3_OP_LE}.get(k, k)
        if sl == "?":
            return None
        tab = {z3.Z3_OP_EQ: {"+": False, "-": False, "0": True}, z3.Z3_OP_DISTINCT: {"+": True, "-": True, "0": False},
               z3.Z3_OP_GT: {"+": True, "-": False, "0": False}, z3.Z3_OP_GE: {"+": True, "-": False, "0": True},
               z3.Z3_OP_LT: {"+": False, "-": True, "0": False}, z3.Z3_OP_LE: {"+": False, "-": True, "0": True}}
        if k not in tab:
            return None
        v = tab[k][sl]
        return (not v) if neg else v

    # ------------------------------------------------------------------ branching
    def decide(self, b):
        b0 = b
        b = z3.simplify(b)
        if z3.is_true(b):
            return True
        if z3.is_false(b):
            return False
        sv = self._by_sign(b0)
        if sv is None:
            sv = self._by_sign(b)
        if sv is not None:
            self.stats["by_sign"] += 1
            return sv
        key = b.get_id()
        if key in self.cache:
            return self.cache[key]
        self.stats["decisions"] += 1
        if self.pos < len(self.prefix):
            v = self.prefix[self.pos]
            self.pos += 1
        else:
            rt = self._check(b)
            rf = self._check(z3.Not(b))
            if rt == z3.unknown:
                rt = z3.sat
            if rf == z3.unknown:
                rf = z3.sat
            if rt == z3.sat and rf == z3.sat:
                self.newwork.append(self.prefix[:self.pos] + [False])
                v = True
            elif rt == z3.sat:
                v = True
            elif rf == z3.sat:
                v = False
            else:
                raise PathAbort()
            self.prefix = self.prefix[:self.pos] + [v]
            self.pos += 1
        self.pc.append(b if v else z3.Not(b))
        self.cache[key] = v
        return v

    def concretize(self, e, lo, hi):
        """fork on the value of an integer-valued term in [lo, hi]"""
        e = z3.simplify(e)
        if z3.is_int_value(e):
            return e.as_long()
        if z3.is_rational_value(e) and e.denominator_as_long() == 1:
            return e.numerator_as_long()
        for v in range(lo, hi + 1):
            if self.decide(e == v):
                return v
        raise PathAbort()

    def uf(self, name, *sorts):
        if name not in self.ufs:
            self.ufs[name] = z3.Function(name, *sorts)
        return self.ufs[name]

    def axiom(self, b):
        self.axioms.append(b)


def uf_exp():
    return z3.Function("exp", z3.RealSort(), z3.RealSort())


def uf_rint():
    return z3.Function("rint", z3.RealSort(), z3.RealSort())


def uf_acos():
    return z3.Function("acos", z3.RealSort(), z3.RealSort())


PI = z3.Real("pi")
PI_FLOAT = z3.RealVal(str(fractions.Fraction(__import__("math").pi)))


def acos_facts(terms):
    """sound facts about arccos on [-1,1] for the given argument terms (instantiated axioms of the uninterpreted acos)"""
    f = uf_acos()
    out = [PI == PI_FLOAT]
    for t in terms:
        r = f(t)
        out.append(z3.Implies(z3.And(t >= -1, t <= 1),
                              z3.And(r >= 0, r <= PI, (r == 0) == (t == 1), (r == PI) == (t == -1),
                                     (r * 2 == PI) == (t == 0), (r * 2 < PI) == (t > 0))))
    for i, a in enumerate(terms):
        for b in terms[i + 1:]:
            ra, rb = f(a), f(b)
            out.append(z3.Implies(z3.And(a >= -1, a <= 1, b >= -1, b <= 1),
                                  z3.And(z3.Implies(a < b, ra > rb), z3.Implies(a > b, ra < rb), z3.Implies(a == b, ra == rb),
                                         z3.Implies(a == -b, ra == PI - rb))))
    return out


def rv(x):
    """python number -> z3 real term (floats by their exact shortest decimal repr)"""
    if isinstance(x, SR):
        return x.z
    if isinstance(x, SB):
        return z3.If(x.z, z3.RealVal(1), z3.RealVal(0))
    if isinstance(x, bool):
        return z3.RealVal(int(x))
    if isinstance(x, int):
        return z3.RealVal(x)
    if isinstance(x, float):
        if x in (float("inf"), float("-inf")):
            # an infinite constant mixed into symbolic arithmetic (np.where(cond, np.inf, v), a sentinel ...): modelled as a real number
            # beyond every magnitude a float input can have -- x/inf is then "as good as zero" without being a special case of the model.
            # Whatever is concluded from it is replayed on the real code before it is reported.
            INF = z3.Real("pos_infinity")
            if Engine.cur is not None:
                Engine.cur.axiom(INF > z3.RealVal(10) ** 300)
            return INF if x > 0 else -INF
        if x != x:
            raise ValueError("NaN constant in symbolic arithmetic")
        # the exact binary value (so that 2*c, c/2, c*1000 computed in float by the target stay consistent with the
        # same constants written in a harness oracle)
        return z3.RealVal(str(fractions.Fraction(x)))
    if isinstance(x, fractions.Fraction):
        return z3.RealVal(str(x))
    import numpy as np
    if isinstance(x, np.generic):
        return rv(x.item())
    raise TypeError(f"cannot lift {type(x)}")


def zt(x):
    """any scalar -> z3 real term"""
    return rv(x)


def bz(o):
    if isinstance(o, SB):
        return o.z
    import numpy as np
    if isinstance(o, (bool, np.bool_)):
        return z3.BoolVal(bool(o))
    if isinstance(o, SR):
        return o.z != 0
    if isinstance(o, (int, float, np.generic)):
        return z3.BoolVal(bool(o))
    raise TypeError(type(o))


class SB:
    __slots__ = ("z",)

    def __init__(self, z):
        self.z = z

    def __bool__(self):
        return Engine.cur.decide(self.z)

    def __and__(self, o):
        return SB(z3.And(self.z, bz(o)))

    __rand__ = __and__

    def __or__(self, o):
        return SB(z3.Or(self.z, bz(o)))

    __ror__ = __or__

    def __invert__(self):
        return SB(z3.Not(self.z))

    def __xor__(self, o):
        return SB(z3.Xor(self.z, bz(o)))

    __rxor__ = __xor__

    # a bool used in arithmetic (True*2.0, sums of masks)
    def _num(self):
        return SR(z3.If(self.z, z3.RealVal(1), z3.RealVal(0)))

    def __add__(self, o):
        return self._num() + o

    __radd__ = __add__

    def __mul__(self, o):
        return self._num() * o

    __rmul__ = __mul__

    def __eq__(self, o):
        try:
            return SB(self.z == bz(o))
        except TypeError:
            return NotImplemented

    def __ne__(self, o):
        try:
            return SB(self.z != bz(o))
        except TypeError:
            return NotImplemented

    __hash__ = None

    def __repr__(self):
        return f"SB({self.z})"


def _pyconst(z):
    z = z3.simplify(z)
    if z3.is_rational_value(z):
        return z.as_fraction()
    return None


class SR:
    __slots__ = ("z", "nan")

    def __init__(self, z, nan=None):
        self.z = z
        self.nan = nan  # optional z3 Bool: "this value is NaN" (only MSM trajectories use it)

    def __array_ufunc__(self, ufunc, method, *inputs, **kw):
        import numpy as np
        from .arr import SArr
        ins = [np.array(i, dtype=object).view(SArr) if isinstance(i, (SR, SB)) else i for i in inputs]
        r = getattr(ufunc, method)(*ins, **kw)
        if isinstance(r, np.ndarray) and r.ndim == 0:
            r = r.item()
        return r

    def __repr__(self):
        return f"SR({z3.simplify(self.z)})"

    def __format__(self, spec):
        """how a symbolic number appears inside an f-string: a numeral as itself, an integer variable as <name> (so that a name
        assembled from symbolic parts compares equal to the same name assembled elsewhere), anything else by its term"""
        t = z3.simplify(self.z)
        if z3.is_rational_value(t) and t.denominator_as_long() == 1:
            return format(t.numerator_as_long(), spec)
        if z3.is_app(t) and t.decl().kind() == z3.Z3_OP_TO_REAL and z3.is_const(t.arg(0)) and t.arg(0).decl().kind() == z3.Z3_OP_UNINTERPRETED:
            return f"<{t.arg(0)}>"
        return repr(self)

    def _b(op):
        def f(self, o):
            try:
                oz = rv(o)
            except TypeError:
                return NotImplemented
            return SR(op(self.z, oz))
        return f

    def _rb(op):
        def f(self, o):
            try:
                oz = rv(o)
            except TypeError:
                return NotImplemented
            return SR(op(oz, self.z))
        return f

    __add__ = _b(lambda a, b: a + b)
    __radd__ = _rb(lambda a, b: a + b)
    __sub__ = _b(lambda a, b: a - b)
    __rsub__ = _rb(lambda a, b: a - b)
    __mul__ = _b(lambda a, b: a * b)
    __rmul__ = _rb(lambda a, b: a * b)
    __truediv__ = _b(lambda a, b: a / b)
    __rtruediv__ = _rb(lambda a, b: a / b)

    def __pow__(self, k):
        if isinstance(k, float) and k == int(k):
            k = int(k)
        if isinstance(k, int) and k >= 0:
            r = z3.RealVal(1)
            for _ in range(k):
                r = r * self.z
            return SR(r)
        if isinstance(k, float) and k == 0.5:
            return self.sqrt()
        return NotImplemented

    def __neg__(self):
        return SR(-self.z)

    def __pos__(self):
        return self

    def __abs__(self):
        return SR(z3.If(self.z >= 0, self.z, -self.z))

    def _c(op):
        def f(self, o):
            try:
                oz = rv(o)
            except TypeError:
                return NotImplemented
            return SB(op(self.z, oz))
        return f

    __lt__ = _c(lambda a, b: a < b)
    __le__ = _c(lambda a, b: a <= b)
    __gt__ = _c(lambda a, b: a > b)
    __ge__ = _c(lambda a, b: a >= b)
    __eq__ = _c(lambda a, b: a == b)
    __ne__ = _c(lambda a, b: a != b)

    def __hash__(self):
        """so that symbolic numbers can live in sets / dict keys: every symbolic value lands in ONE bucket and Python then
        asks `==`, which forks through the solver -- value-based de-duplication, decided symbolically.  A constant-valued SR
        hashes like the Python number.  (A container mixing concrete numbers with non-constant symbolic ones is not
        de-duplicated across the two kinds: that can only add spurious paths, which the replay filters.)"""
        c = _pyconst(self.z)
        if c is not None:
            return hash(int(c)) if c.denominator == 1 else hash(float(c))
        return 0x5F3759DF

    def __bool__(self):
        return Engine.cur.decide(self.z != 0)

    def __index__(self):
        c = _pyconst(self.z)
        if c is not None and c.denominator == 1:
            return int(c)
        # numpy asks for this when a real number is stored into an INTEGER array (silent truncation in the real code) or used as an index:
        # an ordinary exception of the path (the replay on the real code decides whether it is a defect), not a harness error
        raise SymbolicAsInteger("a symbolic real number was used where the code needs a machine integer (stored into an integer array / used as an index)")

    def __float__(self):
        c = _pyconst(self.z)
        if c is not None:
            return float(c)
        raise Unsupported("symbolic value converted to float")

    # numpy calls these methods on object arrays (np.exp, np.sqrt, np.arccos, np.rint ...)
    def exp(self):
        e = Engine.cur
        r = uf_exp()(self.z)
        e.axiom(r > 0)
        return SR(r)

    def sqrt(self):
        e = Engine.cur
        simp = z3.simplify(self.z)   # kept alive in the table: AST ids are only unique among live terms
        key = simp.get_id()
        if key in e._sqrt_args:
            return SR(e._sqrt_args[key][1])
        c = _pyconst(self.z)
        if c is not None and c >= 0:
            import math
            n, d = math.isqrt(c.numerator), math.isqrt(c.denominator)
            if n * n == c.numerator and d * d == c.denominator:
                return SR(z3.RealVal(str(fractions.Fraction(n, d))))
        if e.sqrt_known_constants:
            # unit rows: when the nonlinear EQUALITIES among the global assumptions alone fix the argument to 1 (sum of squares of a row
            # assumed to be a unit vector, whatever the signs of its entries) the root is the constant 1 -- no fresh variable, no axioms
            eqs = [p_ for p_ in e.base_assumptions if z3.is_eq(p_) and not e._is_linear(p_)]
            if eqs:
                s_ = z3.Solver()
                s_.set("timeout", 500)
                s_.add(*eqs)
                s_.add(self.z != 1)
                if s_.check() == z3.unsat:
                    e.stats["sqrt_constants"] = e.stats.get("sqrt_constants", 0) + 1
                    one = z3.RealVal(1)
                    e._sqrt_args[key] = (self.z, one, simp)
                    return SR(one)
        r = e.fresh("sqrt")
        e.declare_sign(r, "?")
        e.axiom(z3.Implies(self.z >= 0, z3.And(r >= 0, r * r == self.z)))
        for (oz, orr, _) in e._sqrt_args.values():
            e.axiom(z3.Implies(z3.And(oz >= 0, self.z >= 0),
                               z3.And((oz <= self.z) == (orr <= r), (oz < self.z) == (orr < r))))
        e._sqrt_args[key] = (self.z, r, simp)
        return SR(r)

    def arccos(self):
        e = Engine.cur
        r = uf_acos()(self.z)
        e.axiom(PI == PI_FLOAT)  # the code compares angles against scipy.constants.pi, a float: the model's pi is that number
        e.axiom(z3.Implies(z3.And(self.z >= -1, self.z <= 1),
                           z3.And(r >= 0, r <= PI, (r == 0) == (self.z == 1), (r == PI) == (self.z == -1),
                                  (r * 2 == PI) == (self.z == 0), (r * 2 < PI) == (self.z > 0))))
        for (oz, orr) in e._acos_args:
            e.axiom(z3.Implies(z3.And(oz >= -1, oz <= 1, self.z >= -1, self.z <= 1),
                               z3.And(z3.Implies(oz < self.z, orr > r), z3.Implies(oz > self.z, orr < r),
                                      z3.Implies(oz == self.z, orr == r), z3.Implies(oz == -self.z, orr == PI - r))))
        e._acos_args.append((self.z, r))
        return SR(r)

    def round(self, decimals=0):
        if decimals >= 12:
            return self  # model: rounding at <= 1e-12 is the identity on the reals
        sc = 10 ** decimals
        return (self * sc).rint() / sc

    def __round__(self, ndigits=None):
        return self.round(0 if ndigits is None else ndigits)

    def rint(self):
        e = Engine.cur
        f = uf_rint()
        r = f(self.z)
        e.axiom(z3.And(r - self.z <= 0.5, self.z - r <= 0.5, f(-self.z) == -r))
        return SR(r)

    def conjugate(self):
        return self

    def clip(self, min=None, max=None, out=None, **kw):
        z_ = self.z
        if min is not None:
            z_ = z3.If(z_ >= rv(min), z_, rv(min))
        if max is not None:
            z_ = z3.If(z_ <= rv(max), z_, rv(max))
        return SR(z_)


class sym_float(float):
    """replacement for builtins.float inside target modules (Python forbids __float__ returning a non-float): identity on symbolic
    values; a subclass of float, so that it still works as `dtype=float` (the numpy proxy recognises `_symfloat`)"""
    _symfloat = True

    def __new__(cls, x=0.0):
        return x if isinstance(x, SR) else float(x)


class sym_int(int):
    """replacement for builtins.int inside target modules (Python forbids __int__ returning a non-int): identity on symbolic values
    (values used as ints are constrained integral by the harness); a subclass of int, so that it still works as `dtype=int`"""

    def __new__(cls, x=0, *a):
        if isinstance(x, SR):
            return x
        return int(x, *a)


def noprint(*a, **k):
    """replacement for print inside target modules: arguments were already evaluated by the caller"""
    return None
