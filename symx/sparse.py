"""symx.sparse -- element-type-generic models of the scipy.sparse entry points molgri uses.

Two families:

* exact family (`coo_array`, `csr_array`, `csc_array`, `diags`, `bmat`): the stored pattern and the stored *entry order*
  are modelled exactly (they are the mechanism behind C01/C02/C14: `S.data /= h.data`).  Whether an entry is stored
  can depend on a symbolic value being zero (scipy drops exact zeros in `+`, `@`, dense->sparse, dia->coo): that
  forks the path through `_nz`.
* dense-backed family (`DCsr`, `DCoo`, `DDok`, `ddiags`): for code that only consumes *values* (C12, C13).  All n*m
  entries are kept; everything that would expose the stored pattern (`data`, `indices`, `row`, ...) raises
  `Unsupported`, so a target that starts to depend on the pattern is a harness error, never a silent pass.

The classes are generic in the element type: with python floats they are compared against the real scipy by
`symx.selftest` on every run (structure, entry order, values).
"""
import numpy as np
import z3

from .arr import SArr, lift, is_sym, sarr, _strip
from .core import SR, SB, rv, bz, Unsupported


def _nz(x):
    """truthiness of an entry (forks for symbolic values)"""
    if isinstance(x, (bool, np.bool_)):
        return bool(x)
    if isinstance(x, SB):
        return bool(x)
    return bool(x != 0)


def _tobool(x):
    if isinstance(x, SB):
        return x
    if isinstance(x, SR):
        return SB(x.z != 0)
    return bool(x)


def _tofloat(x):
    if isinstance(x, SB):
        return x._num()
    if isinstance(x, (bool, np.bool_)):
        return float(x)
    return x


def _cast(x, dtype):
    if dtype is None:
        return x
    if dtype is bool or dtype == np.bool_:
        return _tobool(x)
    if dtype is float or dtype == np.float64:
        return _tofloat(x)
    return x


class LayoutAccess(Unsupported):
    """the target read a storage-layout attribute (.data/.indices/.indptr/.nnz/.row/.col) of a matrix whose sparsity pattern is abstracted
    (dense-backed model).  What such code does depends on the layout, which this model does not have: the harness has to decide it on a
    matrix with a concrete pattern (exact-order model) instead."""


MATERIALISE_MAX = 9        # symbolic entries a pattern-abstract matrix may have when its layout is made concrete by forking


_LAYOUT_ATTRS = ("data", "indices", "indptr", "nnz", "row", "col", "has_sorted_indices", "has_canonical_format")


class _Base:
    ndim = 2
    _dense_backed = False

    @property
    def dtype(self):
        if self._dense_backed:
            vals = list(np.asarray(self._M, dtype=object).reshape(-1))
        else:
            vals = list(self.__dict__.get("data", ()))
        return np.dtype(bool) if vals and all(isinstance(v, (bool, np.bool_)) for v in vals) else np.dtype(float)

    def __getattr__(self, nm):
        if nm.startswith("__") or nm in ("_c", "_M"):
            raise AttributeError(nm)
        if nm == "nnz" and not self._dense_backed and "data" in self.__dict__:
            return len(self.__dict__["data"])
        if self._dense_backed and nm in _LAYOUT_ATTRS:
            # The code reads the storage layout.  The pattern of this matrix depends on symbolic values, so the layout is made concrete by
            # deciding, entry by entry, what is stored (forks; scipy stores exactly the non-zero entries of such a matrix) and the object
            # BECOMES the exact-order matrix of that pattern.  Bounded: with many undecided entries the step is left undecided instead.
            fmt = getattr(type(self), "format", None)
            if fmt in ("csr", "csc", "coo"):
                M = np.asarray(self.__dict__["_M"], dtype=object)
                if sum(1 for x in M.flat if is_sym(x)) <= MATERIALISE_MAX:
                    exact = {"csr": csr_array, "csc": csc_array, "coo": coo_array}[fmt](M.view(SArr))
                    self.__class__ = type(exact)
                    self.__dict__.clear()
                    self.__dict__.update(exact.__dict__)
                    return getattr(self, nm)
            raise LayoutAccess(f"sparse model: storage layout attribute {nm!r} of the pattern-abstract {type(self).__name__}")
        raise Unsupported(f"sparse model: attribute {nm!r} of {type(self).__name__} is not modelled")

    def toarray(self):
        c = self.tocoo()
        out = np.zeros(self.shape, dtype=object)
        out[...] = 0.0
        seen = set()
        for v, i, j in zip(c.data, c.row, c.col):
            k = (int(i), int(j))
            out[k] = _tofloat(out[k]) + _tofloat(v) if k in seen else v
            seen.add(k)
        return out.view(SArr)

    def todense(self):
        return self.toarray()

    @property
    def nnz(self):
        return len(self.tocoo().data)

    def getnnz(self):
        return self.nnz

    def sum(self, axis=None):
        c = self.tocoo()
        if axis is None:
            return sum(c.data, 0)
        n = self.shape[0] if axis == 1 else self.shape[1]
        out = np.zeros(n, dtype=object)
        key = c.row if axis == 1 else c.col
        for v, k in zip(c.data, key):
            out[k] = out[k] + _tofloat(v)
        return out.view(SArr)

    def _scale(self, s):
        if isinstance(s, np.ndarray):
            if s.size != 1:
                raise Unsupported("sparse model: only scalar / size-1 multiplication is modelled")
            s = s.reshape(-1)[0]
        r = self.copy()
        r.data = (r.data * s) if len(r.data) else r.data
        return r

    def __mul__(self, s):
        if isinstance(s, _Base):
            raise Unsupported("sparse model: element-wise sparse*sparse")
        return self._scale(s)

    __rmul__ = __mul__

    def __truediv__(self, s):
        return self._scale(1 / s)

    def __neg__(self):
        return self._scale(-1)

    def __add__(self, o):
        if isinstance(o, DenseBacked):
            return o.__add__(self)
        if not isinstance(o, _Base):
            raise Unsupported("sparse model: sparse + dense")
        a = self.tocsr()
        b = o.tocsr()
        if a.shape != b.shape:
            raise ValueError("inconsistent shapes")
        da = {(int(i), int(j)): v for v, i, j in a._triples()}
        db = {(int(i), int(j)): v for v, i, j in b._triples()}
        keys = sorted(set(da) | set(db))
        data, row, col = [], [], []
        for k in keys:
            if k in da and k in db:
                v = _tofloat(da[k]) + _tofloat(db[k])
            else:
                v = da[k] if k in da else db[k]
            if _nz(v):  # scipy's csr binop drops zero results
                data.append(v)
                row.append(k[0])
                col.append(k[1])
        return csr_array._from_sorted(data, row, col, a.shape)

    __radd__ = __add__

    def __sub__(self, o):
        return self + (-o)

    def __len__(self):
        raise TypeError("sparse array length is ambiguous; use getnnz() or shape[0] (2D)")

    def __bool__(self):
        if self.shape == (1, 1):
            return self.nnz != 0
        raise ValueError("The truth value of an array with more than one element is ambiguous.")

    def asformat(self, fmt):
        return {"coo": self.tocoo, "csr": self.tocsr, "csc": self.tocsc, None: lambda: self}[fmt]()


def _infer_shape(row, col):
    if len(row) == 0 or len(col) == 0:
        raise ValueError("cannot infer dimensions from zero sized index arrays")
    return (int(np.max(row)) + 1, int(np.max(col)) + 1)


class coo_array(_Base):
    format = "coo"

    def __init__(self, arg, shape=None, dtype=None):
        if isinstance(arg, tuple) and len(arg) == 2 and isinstance(arg[1], tuple):
            data, (row, col) = arg
            self.row = np.array(_strip(row), dtype=int).reshape(-1)
            self.col = np.array(_strip(col), dtype=int).reshape(-1)
            d = list(data) if not isinstance(data, np.ndarray) else list(data.reshape(-1))
            if not (len(d) == len(self.row) == len(self.col)):
                raise ValueError("row, column, and data array must all be the same length")
            if isinstance(data, np.ndarray) and data.dtype == object and data.ndim == 1 and dtype is None:
                self.data = data.view(SArr)  # scipy's constructor (copy=False) aliases an ndarray it is given
            else:
                self.data = sarr(d) if d else np.zeros(0, dtype=object).view(SArr)
            if shape is None:
                shape = _infer_shape(self.row, self.col)
            self.shape = (int(shape[0]), int(shape[1]))
            if len(self.row) and (self.row.max() >= self.shape[0] or self.col.max() >= self.shape[1]
                                  or self.row.min() < 0 or self.col.min() < 0):
                raise ValueError("row/column index exceeds matrix dimensions")
        elif isinstance(arg, _Base):
            c = arg.tocoo()
            # scipy: coo_array(S) (copy=False) goes through S.tocoo() and keeps ITS arrays -- the new matrix shares `data` with a coo / csr source
            self.data, self.row, self.col, self.shape = c.data, c.row.copy(), c.col.copy(), c.shape
            if shape is not None and tuple(shape) != tuple(self.shape):
                raise ValueError("inconsistent shapes")
        else:
            d = np.asarray(_strip(arg), dtype=object)
            if d.ndim != 2:
                raise Unsupported("sparse model: coo_array from non-2D input")
            if shape is not None and tuple(shape) != d.shape:
                raise ValueError("inconsistent shapes")
            idx = [(i, j) for i in range(d.shape[0]) for j in range(d.shape[1]) if _nz(d[i, j])]
            self.data = sarr([d[i, j] for i, j in idx]) if idx else np.zeros(0, dtype=object).view(SArr)
            self.row = np.array([i for i, j in idx], dtype=int)
            self.col = np.array([j for i, j in idx], dtype=int)
            self.shape = d.shape
        if dtype is not None and len(self.data):
            self.data = sarr([_cast(x, dtype) for x in self.data])

    def copy(self):
        return coo_array((self.data.copy(), (self.row.copy(), self.col.copy())), shape=self.shape)

    def tocoo(self, copy=False):
        return self.copy() if copy else self

    def tocsc(self, copy=False):
        return self.tocsr().tocsc()

    def tocsr(self, copy=False):
        acc = {}
        for v, i, j in zip(self.data, self.row, self.col):
            k = (int(i), int(j))
            acc[k] = _tofloat(acc[k]) + _tofloat(v) if k in acc else v
        keys = sorted(acc)
        return csr_array._from_sorted([acc[k] for k in keys], [k[0] for k in keys], [k[1] for k in keys], self.shape)

    @property
    def T(self):
        return coo_array((self.data, (self.col, self.row)), shape=self.shape[::-1])

    def transpose(self):
        return self.T

    def dot(self, o):
        return self.tocsr().dot(o)


class csr_array(_Base):
    format = "csr"

    def __init__(self, arg, shape=None, dtype=None):
        if isinstance(arg, csr_array) and dtype is None and (shape is None or tuple(shape) == tuple(arg.shape)):
            # scipy: csr_array(csr) (copy=False) keeps the source's arrays
            self.data, self.indices, self.indptr, self.shape = arg.data, arg.indices, arg.indptr, arg.shape
            return
        c = coo_array(arg, shape=shape, dtype=dtype).tocsr()
        self.data, self.indices, self.indptr, self.shape = c.data, c.indices, c.indptr, c.shape

    @classmethod
    def _from_sorted(cls, data, row, col, shape):
        self = object.__new__(cls)
        data = list(data)
        self.data = sarr(data) if data else np.zeros(0, dtype=object).view(SArr)
        self.indices = np.array(col, dtype=int)
        self.indptr = np.zeros(shape[0] + 1, dtype=int)
        for i in row:
            self.indptr[int(i) + 1] += 1
        self.indptr = np.cumsum(self.indptr)
        self.shape = (int(shape[0]), int(shape[1]))
        return self

    def _rows(self):
        return np.repeat(np.arange(self.shape[0]), np.diff(self.indptr))

    def _triples(self):
        return zip(self.data, self._rows(), self.indices)

    def copy(self):
        return type(self)._from_sorted(list(self.data), self._rows(), self.indices, self.shape)

    def tocsr(self, copy=False):
        return self.copy() if copy else self

    def tocsc(self, copy=False):
        return csc_array._from_sorted(list(self.data), self._rows(), self.indices, self.shape)

    def tocoo(self, copy=False):
        # scipy: csr.tocoo(copy=False) is the default and the coo shares the csr's data array
        return coo_array((self.data.copy() if copy else self.data, (self._rows(), self.indices.copy())), shape=self.shape)

    @property
    def T(self):
        return type(self)(self.tocoo().T)

    def transpose(self):
        return self.T

    def _dense_index(self, key):
        r, c = key
        d = {(int(i), int(j)): v for v, i, j in self._triples()}
        rows = list(range(self.shape[0]))[r] if isinstance(r, slice) else [int(x) for x in r]
        cols = list(range(self.shape[1]))[c] if isinstance(c, slice) else [int(x) for x in c]
        for i in rows:
            if not -self.shape[0] <= i < self.shape[0]:
                raise IndexError("index out of bounds")
        for j in cols:
            if not -self.shape[1] <= j < self.shape[1]:
                raise IndexError("index out of bounds")
        data, rr, cc = [], [], []
        for a, i in enumerate(rows):
            for b, j in enumerate(cols):
                if (i, j) in d:
                    data.append(d[(i, j)])
                    rr.append(a)
                    cc.append(b)
        return data, rr, cc, (len(rows), len(cols))

    def __getitem__(self, key):
        if not (isinstance(key, tuple) and len(key) == 2):
            raise Unsupported("sparse model: only M[rows, cols] indexing is modelled")
        if all(isinstance(k, (int, np.integer)) for k in key):
            d = {(int(i), int(j)): v for v, i, j in self._triples()}
            return d.get((int(key[0]), int(key[1])), 0.0)
        data, rr, cc, shape = self._dense_index(key)
        return type(self)._from_sorted(data, rr, cc, shape)

    def dot(self, o):
        if isinstance(o, DenseBacked):
            return DenseBacked(np.dot(self.toarray().view(np.ndarray), o._M))
        if isinstance(o, _Base):
            A = self.tocsr()
            B = o.tocsr()
            if A.shape[1] != B.shape[0]:
                raise ValueError("dimension mismatch")
            brow = {}
            for v, i, j in B._triples():
                brow.setdefault(int(i), []).append((int(j), v))
            data, rr, cc = [], [], []
            for i in range(A.shape[0]):
                acc = {}
                for p in range(A.indptr[i], A.indptr[i + 1]):
                    k = int(A.indices[p])
                    for (j, bv) in brow.get(k, ()):
                        t = _tofloat(A.data[p]) * _tofloat(bv)
                        acc[j] = acc[j] + t if j in acc else t
                for j in sorted(acc):
                    if _nz(acc[j]):  # csr_matmat drops exact zeros
                        data.append(acc[j])
                        rr.append(i)
                        cc.append(j)
            return csr_array._from_sorted(data, rr, cc, (A.shape[0], B.shape[1]))
        return np.dot(self.toarray(), o)

    def __matmul__(self, o):
        return self.dot(o)


class csc_array(csr_array):
    format = "csc"  # stored like the csr model; only slicing / conversion are used by the targets

    def tocsr(self, copy=False):
        return csr_array._from_sorted(list(self.data), self._rows(), self.indices, self.shape)

    def tocsc(self, copy=False):
        return self

    @property
    def data_order_unmodelled(self):
        raise Unsupported("csc entry order is not modelled")


# ---------------------------------------------------------------------------------------------- dense-backed family
class DenseBacked(_Base):
    """matrix whose pattern may depend on symbolic values: all entries kept; pattern attributes are not available"""
    format = "dense-backed"
    _dense_backed = True

    def __init__(self, M):
        self._M = np.asarray(_strip(M), dtype=object)
        self.shape = self._M.shape

    def toarray(self):
        return self._M.copy().view(SArr)

    def todense(self):
        return self.toarray()

    def copy(self):
        return type(self)._wrap(self._M.copy())

    @classmethod
    def _wrap(cls, M):
        self = object.__new__(cls)
        DenseBacked.__init__(self, M)
        return self

    def tocsr(self, copy=False):
        return DCsr._wrap(self._M)

    def tocoo(self, copy=False):
        return DCoo._wrap(self._M)

    def tocsc(self, copy=False):
        return DCsc._wrap(self._M)

    def sum(self, axis=None):
        M = np.frompyfunc(_tofloat, 1, 1)(self._M) if self._M.size else self._M
        if axis is None:
            return sum(M.flat, 0)
        if M.shape[axis] == 0:
            return np.zeros(M.shape[1 - axis], dtype=object).view(SArr)
        return np.add.reduce(M, axis=axis).view(SArr)

    def _scale(self, s):
        if isinstance(s, np.ndarray):
            if s.size != 1:
                raise Unsupported("sparse model: only scalar multiplication is modelled")
            s = s.reshape(-1)[0]
        return type(self)._wrap(self._M * s)

    def dot(self, o):
        B = o.toarray().view(np.ndarray) if isinstance(o, _Base) else np.asarray(_strip(o), dtype=object)
        if B.ndim == 2 and self.shape[1] != B.shape[0]:
            raise ValueError("dimension mismatch")
        r = _objdot(self._M, B)
        if isinstance(o, _Base):
            return DCsr._wrap(r)
        return r.view(SArr)

    def __matmul__(self, o):
        return self.dot(o)

    def __add__(self, o):
        B = o.toarray().view(np.ndarray) if isinstance(o, _Base) else None
        if B is None:
            raise Unsupported("sparse model: sparse + dense")
        if B.shape != self.shape:
            raise ValueError("inconsistent shapes")
        return DCsr._wrap(self._M + B) if self._M.size else DCsr._wrap(self._M.copy())

    __radd__ = __add__

    @property
    def T(self):
        return type(self)._wrap(self._M.T)

    def __getitem__(self, key):
        if not (isinstance(key, tuple) and len(key) == 2):
            raise Unsupported("sparse model: only M[rows, cols] indexing is modelled")
        r, c = key
        if all(isinstance(k, (int, np.integer)) for k in key):
            return self._M[int(r), int(c)]
        rows = list(range(self.shape[0]))[r] if isinstance(r, slice) else [int(x) for x in r]
        cols = list(range(self.shape[1]))[c] if isinstance(c, slice) else [int(x) for x in c]
        for i in rows:
            if not -self.shape[0] <= i < self.shape[0]:
                raise IndexError("index out of bounds")
        for j in cols:
            if not -self.shape[1] <= j < self.shape[1]:
                raise IndexError("index out of bounds")
        out = np.empty((len(rows), len(cols)), dtype=object)
        for a, i in enumerate(rows):
            for b, j in enumerate(cols):
                out[a, b] = self._M[i, j]
        return type(self)._wrap(out)

    @property
    def nnz(self):
        raise Unsupported("nnz of a symbolic-pattern matrix is not modelled")


def _objdot(A, B):
    """matrix product on object arrays that also works for zero-sized operands"""
    A = np.asarray(A, dtype=object)
    B = np.asarray(B, dtype=object)
    if A.ndim == 2 and B.ndim == 2:
        out = np.zeros((A.shape[0], B.shape[1]), dtype=object)
        for i in range(A.shape[0]):
            for j in range(B.shape[1]):
                acc = 0
                for k in range(A.shape[1]):
                    a, b = A[i, k], B[k, j]
                    if isinstance(a, (bool, np.bool_)):
                        if a:
                            acc = acc + _tofloat(b) if not (isinstance(acc, int) and acc == 0) else _tofloat(b)
                        continue
                    if isinstance(b, (bool, np.bool_)):
                        if b:
                            acc = acc + _tofloat(a) if not (isinstance(acc, int) and acc == 0) else _tofloat(a)
                        continue
                    t = _tofloat(a) * _tofloat(b)
                    acc = acc + t if not (isinstance(acc, int) and acc == 0) else t
                out[i, j] = acc
        return out
    return np.dot(A, B)


def _empty_shape(arg):
    """csr_array((n, m)): an empty matrix of that shape"""
    return isinstance(arg, tuple) and len(arg) == 2 and all(isinstance(x, (int, np.integer)) for x in arg)


class DCsr(DenseBacked):
    format = "csr"

    def __init__(self, arg, shape=None, dtype=None):
        if _empty_shape(arg):
            M = np.zeros((int(arg[0]), int(arg[1])), dtype=object)
            M[...] = 0.0
            DenseBacked.__init__(self, M)
            return
        DenseBacked.__init__(self, _dense_from(arg, shape, dtype))


class DCsc(DenseBacked):
    format = "csc"

    def __init__(self, arg, shape=None, dtype=None):
        DenseBacked.__init__(self, _dense_from(arg, shape, dtype))


class DCoo(DenseBacked):
    format = "coo"

    def __init__(self, arg, shape=None, dtype=None):
        DenseBacked.__init__(self, _dense_from(arg, shape, dtype))


def _dense_from(arg, shape, dtype):
    if isinstance(arg, tuple) and len(arg) == 2 and isinstance(arg[1], tuple):
        data, (row, col) = arg
        rl, cl = list(np.asarray(_strip(row), dtype=object).reshape(-1)), list(np.asarray(_strip(col), dtype=object).reshape(-1))
        if any(isinstance(x, SR) for x in rl + cl):
            # symbolic cell indices (assumed in range by the harness): entry (a, b) is the sum of the data whose indices equal (a, b)
            if shape is None:
                raise Unsupported("sparse model: symbolic indices need an explicit shape")
            data = list(data) if not isinstance(data, (int, float)) else [data] * len(rl)
            if not (len(data) == len(rl) == len(cl)):
                raise ValueError("row, column, and data array must all be the same length")
            M = np.zeros(shape, dtype=object)
            M[...] = 0.0
            for a in range(shape[0]):
                for b in range(shape[1]):
                    terms = [z3.If(z3.And(rv(i) == a, rv(j) == b), rv(_tofloat(_cast(v, dtype))), z3.RealVal(0)) for v, i, j in zip(data, rl, cl)]
                    M[a, b] = SR(z3.Sum(terms)) if terms else 0.0
            return M
        row = np.array(_strip(row), dtype=int).reshape(-1)
        col = np.array(_strip(col), dtype=int).reshape(-1)
        data = list(data)
        if not (len(data) == len(row) == len(col)):
            raise ValueError("row, column, and data array must all be the same length")
        if shape is None:
            shape = _infer_shape(row, col)
        if len(row) and (row.max() >= shape[0] or col.max() >= shape[1] or row.min() < 0 or col.min() < 0):
            raise ValueError("row/column index exceeds matrix dimensions")
        M = np.zeros(shape, dtype=object)
        M[...] = False if (dtype is bool or dtype == np.bool_) else 0.0
        for v, i, j in zip(data, row, col):
            v = _cast(v, dtype)
            if dtype is bool or dtype == np.bool_:
                M[i, j] = v if M[i, j] is False else (M[i, j] | v if is_sym(v) or is_sym(M[i, j]) else bool(M[i, j] or v))
            else:
                M[i, j] = M[i, j] + _tofloat(v)
        return M
    if isinstance(arg, _Base):
        M = arg.toarray().view(np.ndarray)
    else:
        M = np.asarray(_strip(arg), dtype=object)
        if M.ndim != 2:
            raise Unsupported("sparse model: matrix from non-2D input")
    if shape is not None and tuple(shape) != M.shape:
        raise ValueError("inconsistent shapes")
    if dtype is not None and M.size:
        M = np.frompyfunc(lambda x: _cast(x, dtype), 1, 1)(M)
    return M


class DDok(DenseBacked):
    """dok_array((n, m)) with `M[i, j] += 1` for symbolic i, j (an If over all cells)"""
    format = "dok"

    def __init__(self, shape, dtype=None):
        M = np.empty(shape, dtype=object)
        M[...] = 0.0
        DenseBacked.__init__(self, M)

    def _idx(self, x):
        return x if isinstance(x, SR) else int(x)

    def __getitem__(self, key):
        i, j = key
        if not isinstance(i, SR) and not isinstance(j, SR):
            return self._M[self._chk(i, 0), self._chk(j, 1)]
        acc = z3.RealVal(0)
        for a in range(self.shape[0]):
            for b in range(self.shape[1]):
                acc = z3.If(z3.And(rv(i) == a, rv(j) == b), rv(self._M[a, b]), acc)
        return SR(acc)

    def _chk(self, i, ax):
        i = int(i)
        if not -self.shape[ax] <= i < self.shape[ax]:
            raise IndexError("index out of bounds")
        return i

    def __setitem__(self, key, val):
        i, j = key
        if not isinstance(i, SR) and not isinstance(j, SR):
            self._M[self._chk(i, 0), self._chk(j, 1)] = val
            return
        for a in range(self.shape[0]):
            for b in range(self.shape[1]):
                self._M[a, b] = SR(z3.If(z3.And(rv(i) == a, rv(j) == b), rv(val), rv(self._M[a, b])))


def ddiags(diagonals, offsets=0, shape=None, format=None, dtype=None):
    """dense-backed scipy.sparse.diags for a single main-diagonal sequence (what rate_merger / MSM use)"""
    if not (np.isscalar(offsets) and offsets == 0):
        raise Unsupported("ddiags: only the main diagonal is modelled")
    d = np.atleast_1d(np.asarray(_strip(diagonals), dtype=object))
    if d.ndim != 1:
        raise Unsupported("ddiags: 1-d diagonal expected")
    n = len(d)
    M = np.zeros((n, n), dtype=object)
    M[...] = 0.0
    for i in range(n):
        M[i, i] = d[i]
    return DCsr._wrap(M)


# ---------------------------------------------------------------------------------------------- exact diags / bmat
def _as_coo(x):
    if isinstance(x, _Base):
        return x.tocoo()
    return coo_array(x)


def diags(diagonals, offsets=0, shape=None, format=None, dtype=None):
    """scipy.sparse.diags -> dia -> asformat(format): zero entries dropped, entries ordered per diagonal by column"""
    if np.isscalar(offsets) or isinstance(offsets, (int, np.integer)):
        d0 = diagonals if isinstance(diagonals, np.ndarray) else np.asarray(_strip(list(diagonals)) if not np.isscalar(diagonals) else diagonals, dtype=object)
        if d0.ndim <= 1:
            diagonals = [np.atleast_1d(d0)]
            offsets = [int(offsets)]
        else:
            raise ValueError("Different number of diagonals and offsets.")
    else:
        diagonals = [np.atleast_1d(np.asarray(_strip(d), dtype=object)) for d in diagonals]
        offsets = [int(o) for o in offsets]
        if len(diagonals) != len(offsets):
            raise ValueError("Different number of diagonals and offsets.")
    diagonals = [np.atleast_1d(np.asarray(_strip(d), dtype=object)) for d in diagonals]
    if shape is None:
        m = len(diagonals[0]) + abs(offsets[0])
        shape = (m, m)
    m, n = shape
    data, row, col = [], [], []
    for d, off in zip(diagonals, offsets):
        k = max(0, off)
        length = min(m + off, n - off, max(m, n))
        if length < 0:
            raise ValueError("Offset %d (index %d) out of bounds" % (off, 0))
        if len(d) != 1 and len(d) < length:
            raise ValueError("Diagonal length (index 0: %d at offset %d) does not agree with array size (%d, %d)."
                             % (len(d), off, m, n))
        for t in range(length):
            v = d[0] if len(d) == 1 else d[t]
            c = k + t
            r = c - off
            if 0 <= r < m and c < n and _nz(v):
                data.append(v)
                row.append(r)
                col.append(c)
    # dia -> coo orders by column within a diagonal; several diagonals: by diagonal (offset order given)
    out = coo_array((data, (row, col)), shape=(m, n), dtype=dtype)
    if format in (None, "dia", "coo"):
        return out
    if format == "csr":
        return out.tocsr()
    if format == "csc":
        return out.tocsc()
    raise Unsupported(f"diags format {format}")


def bmat(blocks, format=None, dtype=None):
    blocks = np.asarray(blocks, dtype=object)
    if blocks.ndim != 2:
        raise ValueError("blocks must be 2-D")
    M, N = blocks.shape
    bl = {}
    brow = [None] * M
    bcol = [None] * N
    for i in range(M):
        for j in range(N):
            if blocks[i, j] is not None:
                A = _as_coo(blocks[i, j])
                bl[(i, j)] = A
                if brow[i] is None:
                    brow[i] = A.shape[0]
                elif brow[i] != A.shape[0]:
                    raise ValueError(f"blocks[{i},:] has incompatible row dimensions")
                if bcol[j] is None:
                    bcol[j] = A.shape[1]
                elif bcol[j] != A.shape[1]:
                    raise ValueError(f"blocks[:,{j}] has incompatible column dimensions")
    if any(b is None for b in brow) or any(b is None for b in bcol):
        raise ValueError("blocks[...] is all None for some row/column")
    ro = np.concatenate([[0], np.cumsum(brow)]).astype(int)
    co = np.concatenate([[0], np.cumsum(bcol)]).astype(int)
    data, row, col = [], [], []
    for (i, j) in sorted(bl):
        A = bl[(i, j)]
        data.extend(list(A.data))
        row.extend(list(A.row + ro[i]))
        col.extend(list(A.col + co[j]))
    out = coo_array((data, (row, col)), shape=(int(ro[-1]), int(co[-1])), dtype=dtype)
    if format in (None, "coo"):
        return out
    if format == "csr":
        return out.tocsr()
    raise Unsupported(f"bmat format {format}")


# ------------------------------------------------------------------------------------------------ kron / identity / BSR
class bsr_array(_Base):
    """scipy's block format as `kron` produces it: every stored block keeps ALL its R x C entries (explicit zeros included).  Like scipy's,
    it has no `.row` / `.col` (AttributeError), adding another sparse matrix gives a BSR of the same block size again (zero blocks
    dropped), and the conversions hand out the explicit zeros."""
    format = "bsr"

    def __init__(self, blocks, blocksize, shape):
        self.blocks = {k: np.asarray(_strip(v), dtype=object) for k, v in blocks.items()}
        self.blocksize = (int(blocksize[0]), int(blocksize[1]))
        self.shape = (int(shape[0]), int(shape[1]))

    def __getattr__(self, nm):
        if nm in ("row", "col"):
            raise AttributeError(f"'bsr_array' object has no attribute '{nm}'")
        return _Base.__getattr__(self, nm)

    def _keys(self):
        return sorted(self.blocks)

    @property
    def data(self):
        ks = self._keys()
        return sarr([self.blocks[k].tolist() for k in ks]) if ks else np.zeros((0,) + self.blocksize, dtype=object).view(SArr)

    @property
    def indices(self):
        return np.array([k[1] for k in self._keys()], dtype=int)

    @property
    def indptr(self):
        p = np.zeros(self.shape[0] // self.blocksize[0] + 1, dtype=int)
        for k in self._keys():
            p[k[0] + 1] += 1
        return np.cumsum(p)

    @property
    def nnz(self):
        return len(self.blocks) * self.blocksize[0] * self.blocksize[1]

    def copy(self):
        return bsr_array({k: v.copy() for k, v in self.blocks.items()}, self.blocksize, self.shape)

    def toarray(self):
        out = np.zeros(self.shape, dtype=object)
        out[...] = 0.0
        R, C = self.blocksize
        for (bi, bj), blk in self.blocks.items():
            out[bi * R:(bi + 1) * R, bj * C:(bj + 1) * C] = blk
        return out.view(SArr)

    def todense(self):
        return self.toarray()

    def tocoo(self, copy=False):
        R, C = self.blocksize
        data, row, col = [], [], []
        for (bi, bj) in self._keys():            # block-row major, entries of a block row-major, explicit zeros kept
            blk = self.blocks[(bi, bj)]
            for a in range(R):
                for b in range(C):
                    data.append(blk[a, b]); row.append(bi * R + a); col.append(bj * C + b)
        return coo_array((sarr(data) if data else np.zeros(0, dtype=object).view(SArr), (row, col)), shape=self.shape)

    def tocsr(self, copy=False):
        c = self.tocoo()
        order = sorted(range(len(c.data)), key=lambda k: (int(c.row[k]), int(c.col[k])))
        return csr_array._from_sorted([c.data[k] for k in order], [c.row[k] for k in order], [c.col[k] for k in order], self.shape)

    def tocsc(self, copy=False):
        return self.tocsr().tocsc()

    def tobsr(self, *a, **k):
        return self

    def _scale(self, s):
        if isinstance(s, np.ndarray):
            if s.size != 1:
                raise Unsupported("sparse model: only scalar multiplication of a bsr matrix is modelled")
            s = s.reshape(-1)[0]
        return bsr_array({k: (v * s) for k, v in self.blocks.items()}, self.blocksize, self.shape)

    def sum(self, axis=None):
        return self.tocsr().sum(axis)

    @property
    def T(self):
        return bsr_array({(k[1], k[0]): v.T.copy() for k, v in self.blocks.items()}, self.blocksize[::-1], self.shape[::-1])

    def __add__(self, o):
        if isinstance(o, DenseBacked) or not isinstance(o, _Base):
            raise Unsupported("sparse model: bsr + dense / dense-backed")
        if tuple(o.shape) != self.shape:
            raise ValueError("inconsistent shapes")
        R, C = self.blocksize
        blocks = {k: v.copy() for k, v in self.blocks.items()}
        oc = o if isinstance(o, bsr_array) and o.blocksize == self.blocksize else None
        if oc is not None:
            other = {k: v for k, v in oc.blocks.items()}
        else:
            other = {}
            c = o.tocoo()
            for v, i, j in zip(c.data, c.row, c.col):
                k = (int(i) // R, int(j) // C)
                if k not in other:
                    other[k] = np.zeros((R, C), dtype=object)
                    other[k][...] = 0.0
                other[k][int(i) % R, int(j) % C] = other[k][int(i) % R, int(j) % C] + _tofloat(v)
        for k, blk in other.items():
            blocks[k] = (blocks[k] + blk) if k in blocks else blk
        # scipy's block binop drops blocks that are zero throughout
        keep = {k: v for k, v in blocks.items() if any(_nz(x) for x in v.flat)}
        return bsr_array(keep, self.blocksize, self.shape)

    __radd__ = __add__

    def asformat(self, fmt):
        return {"coo": self.tocoo, "csr": self.tocsr, "csc": self.tocsc, "bsr": lambda: self, None: lambda: self}[fmt]()


def identity(n, dtype="d", format=None):
    """scipy.sparse.identity: ones on the diagonal (scipy hands out the dia format by default; only its entries matter to the targets)"""
    n = int(n)
    one = True if dtype in (bool, np.bool_, "bool") else 1.0
    m = coo_array((sarr([one] * n) if n else np.zeros(0, dtype=object).view(SArr), (list(range(n)), list(range(n)))), shape=(n, n))
    if format in (None, "dia"):
        m.format = "dia"
        return m
    return m.asformat(format)


def eye(m, n=None, k=0, dtype=float, format=None):
    if (n is not None and n != m) or k != 0:
        raise Unsupported("sparse model: only square eye() without offset")
    return identity(m, dtype=dtype, format=format)


def kron(A, B, format=None):
    """scipy.sparse.kron, including its BSR shortcut: when B is at least half full (2 nnz >= rows cols) and no other format is asked
    for, the result is a BSR matrix whose blocks are a_ij * B.toarray() -- the zeros of B become STORED entries"""
    Bc = B.tocoo() if isinstance(B, _Base) else coo_array(B)
    Ain = A if isinstance(A, _Base) else coo_array(A)
    if isinstance(Ain, DenseBacked) or isinstance(Bc, DenseBacked):
        raise Unsupported("sparse model: kron of pattern-abstract matrices")
    out_shape = (Ain.shape[0] * Bc.shape[0], Ain.shape[1] * Bc.shape[1])
    nnzB = len(Bc.data)
    if format in (None, "bsr") and 2 * nnzB >= Bc.shape[0] * Bc.shape[1]:
        Acsr = Ain.tocsr()
        if len(Acsr.data) == 0 or nnzB == 0:
            return coo_array((np.zeros(0, dtype=object).view(SArr), ([], [])), shape=out_shape).asformat(format if format != "bsr" else None)
        Bd = np.asarray(Bc.toarray().view(np.ndarray), dtype=object)
        blocks = {}
        for v, i, j in Acsr._triples():
            blocks[(int(i), int(j))] = np.asarray(_tofloat(v) * Bd, dtype=object)
        return bsr_array(blocks, Bc.shape, out_shape)
    Ac = Ain.tocoo()
    data, row, col = [], [], []
    for a, i, j in zip(Ac.data, Ac.row, Ac.col):
        for b, k, l in zip(Bc.data, Bc.row, Bc.col):
            data.append(_tofloat(a) * _tofloat(b))
            row.append(int(i) * Bc.shape[0] + int(k))
            col.append(int(j) * Bc.shape[1] + int(l))
    r = coo_array((sarr(data) if data else np.zeros(0, dtype=object).view(SArr), (row, col)), shape=out_shape)
    return r.asformat(format)


def block_diag(mats, format=None, dtype=None):
    """scipy.sparse.block_diag: the blocks along the diagonal, entries block by block -- a sparse block contributes its stored entries in
    its coo order, a dense block ALL its entries (zeros included) row-major"""
    data, row, col = [], [], []
    r0 = c0 = 0
    for a in mats:
        if isinstance(a, DenseBacked):
            raise Unsupported("sparse model: block_diag of pattern-abstract matrices")
        if isinstance(a, _Base):
            c = a.tocoo()
            nr, nc = c.shape
            for v, i, j in zip(c.data, c.row, c.col):
                data.append(v); row.append(int(i) + r0); col.append(int(j) + c0)
        else:
            d = np.atleast_2d(np.asarray(_strip(a), dtype=object))
            nr, nc = d.shape
            for i in range(nr):
                for j in range(nc):
                    data.append(d[i, j]); row.append(i + r0); col.append(j + c0)
        r0 += nr
        c0 += nc
    r = coo_array((sarr(data) if data else np.zeros(0, dtype=object).view(SArr), (row, col)), shape=(r0, c0), dtype=dtype)
    return r.asformat(format)
