"""symx.selftest -- differential tests of the environment models against the real libraries (concrete floats).

This is ordinary testing of *the models*, never the deciding step of a property.  A mismatch raises AssertionError,
which the runner reports as a harness error (exit 2).  Each function returns the number of comparisons made.
"""
import numpy as np
import scipy.sparse as sp

from . import sparse as M


def _eq_struct(real, model, what, order=True):
    """same shape, same stored entries in the same order (coo: row/col/data; csr: indices/indptr/data)"""
    assert tuple(real.shape) == tuple(model.shape), (what, "shape", real.shape, model.shape)
    if real.format == "dia":
        real = real.tocoo()
    if real.format == "coo":
        r = (list(real.row), list(real.col), [float(x) for x in real.data])
        m = (list(model.row), list(model.col), [float(x) for x in model.data])
    else:
        r = (list(real.indices), list(real.indptr), [float(x) for x in real.data])
        m = (list(model.indices), list(model.indptr), [float(x) for x in model.data])
    if not order:
        return
    assert r[0] == m[0] and r[1] == m[1], (what, "pattern/order", r, m)
    assert np.allclose(r[2], m[2], rtol=1e-12, atol=0), (what, "values", r, m)


def _eq_dense(real, model, what):
    a = np.asarray(real.toarray() if hasattr(real, "toarray") else real, dtype=float)
    b = np.asarray(model.toarray() if hasattr(model, "toarray") else model, dtype=object).astype(float)
    assert a.shape == b.shape, (what, a.shape, b.shape)
    assert np.allclose(a, b, rtol=1e-12, atol=0), (what, a, b)


def _rand_sparse(rng, n, m, density=0.5, sym=False, explicit_zero=False):
    A = rng.uniform(0.5, 2.0, size=(n, m)) * (rng.random((n, m)) < density)
    if sym and n == m:
        A = np.triu(A, 1)
        A = A + A.T
    return A


def _raises(f):
    try:
        f()
    except Exception as e:  # noqa: BLE001
        return type(e)
    return None


def sparse_selftest(seed=0, rounds=12):
    rng = np.random.default_rng(seed + 101)
    n_cmp = 0
    for rd in range(rounds):
        n = int(rng.integers(1, 6))
        A = _rand_sparse(rng, n, n, sym=bool(rd % 2))
        B = _rand_sparse(rng, n, n)
        # dense -> coo (row-major non-zeros), coo -> csr, csr -> coo
        rc, mc = sp.coo_array(A), M.coo_array(A)
        _eq_struct(rc, mc, "coo(dense)"); n_cmp += 1
        _eq_struct(rc.tocsr(), mc.tocsr(), "tocsr"); n_cmp += 1
        _eq_struct(rc.tocsr().tocoo(), mc.tocsr().tocoo(), "csr.tocoo"); n_cmp += 1
        _eq_struct(sp.csr_array(A), M.csr_array(A), "csr(dense)"); n_cmp += 1
        # triplet construction with duplicates, explicit zeros and arbitrary order
        k = int(rng.integers(0, 8))
        row = rng.integers(0, n, size=k); col = rng.integers(0, n, size=k); dat = rng.uniform(-1, 1, size=k)
        if k:
            dat[0] = 0.0
        rt, mt = sp.coo_array((dat, (row, col)), shape=(n, n)), M.coo_array((list(dat), (list(row), list(col))), shape=(n, n))
        _eq_struct(rt, mt, "coo(triplets)"); n_cmp += 1
        _eq_struct(rt.tocsr(), mt.tocsr(), "triplets.tocsr (duplicates summed, zeros kept)"); n_cmp += 1
        _eq_dense(rt, mt, "triplets.toarray"); n_cmp += 1
        # scalar product keeps format and order; sum(axis); +
        _eq_struct(2.5 * rc, 2.5 * mc, "scalar*coo"); n_cmp += 1
        _eq_struct(2.5 * rc.tocsr(), 2.5 * mc.tocsr(), "scalar*csr"); n_cmp += 1
        for ax in (0, 1):
            assert np.allclose(np.asarray(rc.sum(axis=ax)).ravel(), np.asarray(mc.sum(axis=ax), dtype=float)); n_cmp += 1
        rb, mb = sp.coo_array(B), M.coo_array(B)
        _eq_struct(rc + rb, mc + mb, "coo+coo -> csr"); n_cmp += 1
        # cancelling sum: zero results are dropped by scipy's binop
        rneg, mneg = sp.csr_array(-A), M.csr_array(-A)
        _eq_struct(rc.tocsr() + rneg, mc.tocsr() + mneg, "A+(-A) drops zeros"); n_cmp += 1
        _eq_struct(rt.tocsr() + rb.tocsr(), mt.tocsr() + mb.tocsr(), "explicit zeros in +"); n_cmp += 1
        # product
        rp = rc.tocsr().dot(rb.tocsr()); rp.sort_indices()  # scipy's matmat leaves indices unsorted: order of a product is not modelled
        _eq_struct(rp, mc.tocsr().dot(mb.tocsr()), "csr.dot(csr)"); n_cmp += 1
        # column / row fancy slicing as rate_merger does it
        keep = sorted(set(range(n)) - set(rng.integers(0, n, size=int(rng.integers(0, n + 1))).tolist()))
        rs = rc.tocsr()[:, keep].tocsc()[keep, :].tocsr()
        ms = mc.tocsr()[:, keep].tocsc()[keep, :].tocsr()
        _eq_dense(rs, ms, "slice"); n_cmp += 1
        # transpose
        _eq_dense(rc.T, mc.T, "T"); n_cmp += 1
        # dense-backed family agrees in values
        dA = M.DCsr(A)
        _eq_dense(rc.tocsr().dot(rb.tocsr()), dA.dot(M.DCsr(B)), "DCsr.dot"); n_cmp += 1
        _eq_dense(rc.tocsr()[:, keep].tocsc()[keep, :], dA[:, keep].tocsc()[keep, :], "DCsr slice"); n_cmp += 1
        _eq_dense(rc + rb, dA + M.DCsr(B), "DCsr +"); n_cmp += 1
        assert np.allclose(np.asarray(rc.sum(axis=1)).ravel(), np.asarray(dA.sum(axis=1), dtype=float)); n_cmp += 1
        # bool merge-matrix construction (rate_merger)
        rows = list(range(n)) + [int(x) for x in rng.integers(0, n, size=2)]
        cols = list(range(n)) + [int(x) for x in rng.integers(0, n, size=2)]
        rm = sp.coo_array(([1, ] * len(rows), (rows, cols)), dtype=bool).tocsc()[:, keep]
        mm = M.DCoo(([1, ] * len(rows), (rows, cols)), dtype=bool).tocsc()[:, keep]
        _eq_dense(rm.todense().astype(float), np.asarray(mm.todense(), dtype=object).astype(float), "merge matrix"); n_cmp += 1
        _eq_dense(rm.T.dot(rc.tocsr().dot(rm)), mm.T.dot(dA.dot(mm)), "P^T M P"); n_cmp += 1
    # diags: offsets, truncation, scalar broadcast, zero dropping, empty
    for (d, off, shape, kw) in [([1., 2., 3.], 0, None, {}), ([0., 2., 0.], 0, None, {"format": "csr"}),
                                ([1., 2., 3., 4., 5.], 2, (4, 4), {"format": "coo"}), ([1., 2., 3.], 2, (4, 4), {"format": "coo"}),
                                ((True,), 2, (4, 4), {"dtype": bool, "format": "coo"}), ((True,), 3, (3, 3), {"dtype": bool, "format": "coo"}),
                                ([], 3, (3, 3), {"format": "coo"}), ([1., 0., 3., 4.], -2, (6, 6), {"format": "coo"}),
                                ([], 0, None, {"format": "csr"}), ([5.], -1, (3, 3), {"format": "coo"})]:
        r = sp.diags(d, offsets=off, shape=shape, **kw)
        m = M.diags(d, offsets=off, shape=shape, **kw)
        _eq_struct(r, m, f"diags {d} {off} {shape}"); n_cmp += 1
        if off == 0 and len(d):
            _eq_dense(r, M.ddiags(d, format="csr"), "ddiags"); n_cmp += 1
    assert _raises(lambda: sp.diags([1., 2.], offsets=0, shape=(4, 4))) is _raises(lambda: M.diags([1., 2.], offsets=0, shape=(4, 4))); n_cmp += 1
    r = sp.diags([1., 2.], offsets=1, shape=(3, 3), format="coo"); r = r + sp.diags([1., 2.], offsets=-1, shape=(3, 3), format="coo")
    m = M.diags([1., 2.], offsets=1, shape=(3, 3), format="coo"); m = m + M.diags([1., 2.], offsets=-1, shape=(3, 3), format="coo")
    _eq_struct(r, m, "diags + diags"); n_cmp += 1
    # bmat: block order, None blocks, dense blocks
    E2 = np.array([[0., 1.], [1., 0.]])
    for blocks in ([[E2, None], [None, E2]], [[sp.coo_array(E2), None, None], [None, sp.coo_array(3 * E2), None], [None, None, E2]],
                   [[np.array([[0.]]), None], [None, np.array([[0.]])]]):
        mblocks = [[(M.coo_array(b.toarray()) if hasattr(b, "toarray") else b) for b in rowb] for rowb in blocks]
        _eq_struct(sp.bmat(np.array(blocks, dtype=object), dtype=float), M.bmat(np.array(mblocks, dtype=object), dtype=float), "bmat"); n_cmp += 1
    # size-1 array broadcast in `coo * array`, 1x1 from nested list, coo(coo)
    _eq_dense(sp.coo_array(E2) * np.array([3.0]), M.coo_array(E2) * np.array([3.0]), "coo*size1"); n_cmp += 1
    _eq_dense(sp.coo_array(sp.coo_array([[False]], shape=(1, 1))), M.coo_array(M.coo_array([[False]], shape=(1, 1))), "1x1"); n_cmp += 1
    # error behaviour the findings rest on
    assert _raises(lambda: sp.coo_array(([], ([], [])), dtype=bool)) is ValueError
    assert _raises(lambda: M.coo_array(([], ([], [])), dtype=bool)) is ValueError
    assert _raises(lambda: M.DCoo(([], ([], [])), dtype=bool)) is ValueError; n_cmp += 3
    # aliasing: which conversions share the data array with their source (in-place updates of the result visible in the source)
    def visible(mk, conv, mutate=lambda M: M.data.__imul__(10.0)):
        src = mk()
        before = [float(x) for x in src.data]
        out = conv(src)
        out.data *= 10.0
        return [float(x) for x in src.data] != before
    D2 = np.array([[0., 1.], [2., 0.]])
    for nm, conv in (("coo.tocoo()", lambda M: M.tocoo()), ("coo.tocsr()", lambda M: M.tocsr()), ("coo.copy()", lambda M: M.copy()), ("2*coo", lambda M: 2.0 * M)):
        assert visible(lambda: sp.coo_array(D2), conv) == visible(lambda: M.coo_array(D2), conv), ("aliasing", nm); n_cmp += 1
    for nm, conv in (("csr.tocoo()", lambda M: M.tocoo()), ("csr.tocoo(copy=True)", lambda M: M.tocoo(copy=True)), ("csr.tocsr()", lambda M: M.tocsr()),
                     ("csr.copy()", lambda M: M.copy()), ("2*csr", lambda M: 2.0 * M)):
        assert visible(lambda: sp.csr_array(D2), conv) == visible(lambda: M.csr_array(D2), conv), ("aliasing", nm); n_cmp += 1
    assert visible(lambda: sp.coo_array(D2), lambda S: sp.coo_array(S)) == visible(lambda: M.coo_array(D2), lambda S: M.coo_array(S)), ("aliasing", "coo_array(coo)"); n_cmp += 1
    assert visible(lambda: sp.csr_array(D2), lambda S: sp.coo_array(S)) == visible(lambda: M.csr_array(D2), lambda S: M.coo_array(S)), ("aliasing", "coo_array(csr)"); n_cmp += 1
    assert visible(lambda: sp.coo_array(D2), lambda S: sp.csr_array(S)) == visible(lambda: M.coo_array(D2), lambda S: M.csr_array(S)), ("aliasing", "csr_array(coo)"); n_cmp += 1
    assert visible(lambda: sp.csr_array(D2), lambda S: sp.csr_array(S)) == visible(lambda: M.csr_array(D2), lambda S: M.csr_array(S)), ("aliasing", "csr_array(csr)"); n_cmp += 1
    dr, dm = np.array([1., 2.]), np.array([1., 2.], dtype=object)
    cr, cm = sp.coo_array((dr, ([0, 1], [1, 0])), shape=(2, 2)), M.coo_array((dm, ([0, 1], [1, 0])), shape=(2, 2))
    cr.data *= 3.0; cm.data *= 3.0
    assert (dr[0] == 3.0) == (float(dm[0]) == 3.0), "constructor aliasing of the data array"; n_cmp += 1
    # kron / identity, including scipy's BSR shortcut for a half-full second operand (explicit zeros become stored entries)
    for Bm in (np.array([[0, 2., 0], [2, 0, 3], [0, 3, 0]]), np.array([[0, 2., 5], [2, 0, 3], [5, 3, 0]]), np.array([[0, 1.], [1, 0]]), np.array([[0, 0.], [0, 0]])):
        for nrep in (1, 2, 3):
            K_r, K_m = sp.kron(sp.identity(nrep), sp.coo_array(Bm)), M.kron(M.identity(nrep), M.coo_array(Bm))
            assert K_r.format == K_m.format or (K_r.format == "coo" and K_m.format == "coo"), ("kron format", K_r.format, K_m.format)
            _eq_dense(K_r, K_m, "kron"); n_cmp += 1
            S_r = sp.coo_array(([7.0, 7.0], ([0, K_r.shape[0] - 1], [K_r.shape[0] - 1, 0])), shape=K_r.shape)
            S_m = M.coo_array((np.array([7.0, 7.0], dtype=object), ([0, K_r.shape[0] - 1], [K_r.shape[0] - 1, 0])), shape=K_r.shape)
            R_r, R_m = K_r + S_r, K_m + S_m
            assert R_r.format == R_m.format, ("kron + coo format", R_r.format, R_m.format)
            _eq_struct(R_r.tocoo(), R_m.tocoo(), "(kron + coo).tocoo"); n_cmp += 1
            _eq_struct(R_r.tocsr(), R_m.tocsr(), "(kron + coo).tocsr"); n_cmp += 1
            assert R_r.nnz == R_m.nnz, ("nnz", R_r.nnz, R_m.nnz)
            if R_r.format == "bsr":
                assert _raises(lambda: R_r.row) is AttributeError and _raises(lambda: R_m.row) is AttributeError; n_cmp += 1
    # block_diag: sparse blocks contribute their stored entries, dense blocks all their entries (explicit zeros stay stored in coo)
    Bs = np.array([[0, 2., 0], [2, 0, 3], [0, 3, 0]])
    for fmt in ("coo", None, "csr"):
        r_ = sp.block_diag([sp.coo_array(Bs)] * 2 + [sp.coo_array(2 * Bs)], format=fmt, dtype=float)
        m_ = M.block_diag([M.coo_array(Bs)] * 2 + [M.coo_array(2 * Bs)], format=fmt, dtype=float)
        _eq_struct(r_, m_, "block_diag sparse"); n_cmp += 1
        r_ = sp.block_diag([Bs, Bs[:2, :2]], format=fmt)
        m_ = M.block_diag([Bs, Bs[:2, :2]], format=fmt)
        _eq_struct(r_.tocoo(), m_.tocoo(), "block_diag dense"); n_cmp += 1
    # dok counting
    rk = sp.dok_array((3, 3)); mk = M.DDok((3, 3))
    for (i, j) in [(0, 1), (0, 1), (2, 2), (1, 0)]:
        rk[i, j] += 1; mk[i, j] += 1
    _eq_dense(rk.tocsr(), mk.tocsr(), "dok"); n_cmp += 1
    return n_cmp
