"""symx.models -- element-type-generic models of scipy Rotation, MDAnalysis Universe/AtomGroup/Merge and cdist.

Only what molgri's pseudotrajectory / assignment code touches.  With float arrays the same classes are compared against
the real libraries by `models_selftest` on every run.
"""
import math

import numpy as np

import z3

from .arr import SArr, lift, sarr, _strip, is_sym
from .core import SR, Unsupported, Engine


def _arr(x):
    return lift(np.asarray(_strip(x), dtype=object))


class FRot:
    """scipy.spatial.transform.Rotation.from_quat(q).as_matrix(): scalar-last, normalising"""

    def __init__(self, q):
        # Rotation(q) is the documented-as-private but working spelling of from_quat(q) that the package uses
        if q is not None and not isinstance(q, np.ndarray):
            q = np.asarray(_strip(q), dtype=object)
        if q is not None and q.shape != (4,) and not (q.ndim == 2 and q.shape[1] == 4):
            raise ValueError("Expected `quat` to have shape (4,) or (N, 4), got {}".format(q.shape))
        self.q = q

    @classmethod
    def from_quat(cls, q):
        q = np.asarray(_strip(q), dtype=object)
        if q.shape != (4,) and not (q.ndim == 2 and q.shape[1] == 4):
            raise ValueError("Expected `quat` to have shape (4,) or (N, 4), got {}".format(q.shape))
        return cls(q)

    def _one(self, q):
        x, y, z, w = q
        n = x * x + y * y + z * z + w * w
        return [[(w * w + x * x - y * y - z * z) / n, 2 * (x * y - z * w) / n, 2 * (x * z + y * w) / n],
                [2 * (x * y + z * w) / n, (w * w - x * x + y * y - z * z) / n, 2 * (y * z - x * w) / n],
                [2 * (x * z - y * w) / n, 2 * (y * z + x * w) / n, (w * w - x * x - y * y + z * z) / n]]

    def as_matrix(self):
        if self.q.ndim == 2:
            return sarr([self._one(row) for row in self.q]) if len(self.q) else np.zeros((0, 3, 3), dtype=object).view(SArr)
        return sarr(self._one(self.q))

    def __len__(self):
        if self.q is None:
            return len(self.M)
        if self.q.ndim == 1:
            raise TypeError("Single rotation has no len().")
        return len(self.q)

    # ---- rotations given by matrices (scipy: from_matrix(...).magnitude() / .as_quat())
    M = None

    @classmethod
    def from_matrix(cls, M):
        """a stack (n, 3, 3) or one (3, 3) of rotation matrices, taken as they are (scipy orthogonalises by SVD: the identity on a rotation)"""
        M = np.asarray(_strip(M), dtype=object)
        if M.shape[-2:] != (3, 3) or M.ndim not in (2, 3):
            raise ValueError("Expected `matrix` to have shape (3, 3) or (N, 3, 3), got {}".format(M.shape))
        r = cls(None)
        r.M = M
        return r

    def magnitude(self):
        """rotation angle: arccos((trace - 1) / 2) (for a rotation matrix; a monotone decreasing function of the trace)"""
        if self.M is None:
            raise Unsupported("Rotation model: magnitude() of a rotation given by a quaternion")
        def one(m):
            tr = m[0, 0] + m[1, 1] + m[2, 2]
            tr = tr if isinstance(tr, SR) else SR(tr)
            # the angle as an uninterpreted, strictly decreasing function of the trace (arccos((tr-1)/2) on [-1, 3]); the instances of one
            # path are related pairwise -- no range side conditions, which would need bounds of quadratic forms on the unit sphere
            e = Engine.cur
            f = z3.Function("rotation_angle_of_trace", z3.RealSort(), z3.RealSort())
            r = f(tr.z)
            e.axiom(z3.And(r >= 0, r <= 4))
            reg = e.__dict__.setdefault("_angle_args", [])
            if e.__dict__.get("_angle_path") is not e.pc:          # a new path: the registry belongs to the previous one
                reg.clear()
                e.__dict__["_angle_path"] = e.pc
            for (ot, orr) in reg:
                e.axiom(z3.And(z3.Implies(ot < tr.z, orr > r), z3.Implies(ot > tr.z, orr < r), z3.Implies(ot == tr.z, orr == r)))
            reg.append((tr.z, r))
            return SR(r)
        if self.M.ndim == 3:
            return sarr([one(m) for m in self.M])
        return one(self.M)

    def as_quat(self, canonical=False, **k):
        if k or canonical:
            raise Unsupported("Rotation model: as_quat with options")
        if self.M is None:
            # scipy keeps the sign it was given and normalises
            def norm(q):
                n2 = sum((c * c for c in q), 0)
                if isinstance(n2, SR):
                    n = n2.sqrt()
                else:
                    import math
                    n = math.sqrt(float(n2))
                return [c / n for c in q]
            if self.q.ndim == 2:
                return sarr([norm(list(r)) for r in self.q])
            return sarr(norm(list(self.q)))
        # matrix -> quaternion: one of the two unit quaternions of the rotation; scipy's algorithm makes the component of largest
        # magnitude positive (ties: either).  Fresh variables x with M(x) == M, |x| = 1 and that sign rule.
        e = Engine.cur
        def one(m):
            x = [e.fresh("quat") for _ in range(4)]
            for v in x:
                e.declare_sign(v, "?")
            mx = rotation_matrix_terms_unit(x)
            for i in range(3):
                for j in range(3):
                    mij = m[i, j]
                    e.axiom(mx[i][j] == (mij.z if isinstance(mij, SR) else z3.RealVal(str(mij))))
            e.axiom(sum((v * v for v in x), 0) == 1)
            e.axiom(z3.Or([z3.And(x[k_] > 0, *[x[k_] * x[k_] >= x[j] * x[j] for j in range(4) if j != k_]) for k_ in range(4)]))
            return [SR(v) for v in x]
        if self.M.ndim == 3:
            return sarr([one(m) for m in self.M])
        return sarr(one(self.M))

    def __getattr__(self, nm):
        raise Unsupported(f"Rotation model: {nm} not modelled")


def rotation_matrix_terms(q):
    """the same closed form for harness oracles (q = x, y, z, w of any arithmetic type)"""
    x, y, z, w = q
    n = x * x + y * y + z * z + w * w
    return [[(w * w + x * x - y * y - z * z) / n, 2 * (x * y - z * w) / n, 2 * (x * z + y * w) / n],
            [2 * (x * y + z * w) / n, (w * w - x * x + y * y - z * z) / n, 2 * (y * z - x * w) / n],
            [2 * (x * z - y * w) / n, 2 * (y * z + x * w) / n, (w * w - x * x - y * y + z * z) / n]]


def rotation_matrix_terms_unit(q):
    """rotation matrix of a UNIT quaternion (x, y, z, w), without the normalising division"""
    x, y, z, w = q
    return [[1 - 2 * (y * y + z * z), 2 * (x * y - z * w), 2 * (x * z + y * w)],
            [2 * (x * y + z * w), 1 - 2 * (x * x + z * z), 2 * (y * z - x * w)],
            [2 * (x * z - y * w), 2 * (y * z + x * w), 1 - 2 * (x * x + y * y)]]


class FAtoms:
    def __init__(self, u, idx=None):
        self.u = u
        self.idx = list(range(len(u.pos))) if idx is None else list(idx)

    @property
    def universe(self):
        return self.u

    @property
    def positions(self):
        return self.u.pos[self.idx].copy()  # MDAnalysis hands out a copy

    @positions.setter
    def positions(self, v):
        v = np.asarray(_strip(v), dtype=object)
        if v.shape != (len(self.idx), 3):
            raise ValueError("positions of wrong shape")
        self.u.pos[self.idx] = v.copy()

    @property
    def masses(self):
        return self.u.masses[self.idx].copy()

    @property
    def names(self):
        return [self.u.names[i] for i in self.idx]

    def center_of_mass(self, **kw):
        m = self.u.masses[self.idx]
        p = self.u.pos[self.idx]
        tot = sum(m.flat, 0)
        return sarr([sum((p[a, c] * m[a] for a in range(len(self.idx))), 0) / tot for c in range(3)])

    def translate(self, t):
        t = np.asarray(_strip(t), dtype=object)
        if t.shape != (3,):
            raise ValueError("translation vector of wrong shape")
        self.u.pos[self.idx] = self.u.pos[self.idx] + t
        return self

    def rotate(self, R, point=(0, 0, 0)):
        R = np.asarray(_strip(R), dtype=object)
        if R.shape != (3, 3):
            raise ValueError("rotation matrix of wrong shape")
        p = np.asarray(_strip(point), dtype=object)
        x = self.u.pos[self.idx] - p
        self.u.pos[self.idx] = np.dot(x, R.T) + p
        return self

    def __len__(self):
        return len(self.idx)

    @property
    def indices(self):
        return np.array(self.idx, dtype=int)

    def __getitem__(self, k):
        """AtomGroup indexing: slices, integer lists / arrays -> AtomGroup over the same universe"""
        if isinstance(k, slice):
            return FAtoms(self.u, self.idx[k])
        if isinstance(k, (list, tuple, np.ndarray)):
            ks = [int(i) for i in np.asarray(k).reshape(-1)]
            return FAtoms(self.u, [self.idx[i] for i in ks])
        raise Unsupported("a single Atom (integer index into an AtomGroup) is not modelled")

    @property
    def n_atoms(self):
        return len(self.idx)

    def __getattr__(self, nm):
        raise Unsupported(f"AtomGroup model: {nm} not modelled")


class FUniverse:
    def __init__(self, pos, masses, names):
        self.pos = _arr(pos).copy()
        self.masses = _arr(masses).copy()
        self.names = list(names)
        self.dimensions = None

    @property
    def atoms(self):
        return FAtoms(self)

    def copy(self):
        u = FUniverse(self.pos, self.masses, self.names)
        u.dimensions = self.dimensions
        return u

    @property
    def _topology(self):
        return FTopology(self.masses, self.names)

    @property
    def trajectory(self):
        """Universe.empty(n, trajectory=True): a one-frame MemoryReader -- the time step is a view of the coordinate array, so seeking
        frame 0 changes nothing (self-tested against MDAnalysis)"""
        return _OneFrameMemoryTrajectory(self)

    def select_atoms(self, sel):
        import re
        m = re.fullmatch(r"\s*(not\s+)?bynum\s+(\d+)\s*:\s*(\d+)\s*", sel)
        if not m:
            raise Unsupported(f"select_atoms({sel!r}) is not modelled (only '[not] bynum a:b')")
        neg, a, b = bool(m.group(1)), int(m.group(2)), int(m.group(3))
        n = len(self.names)
        return FAtoms(self, [i for i in range(n) if (a <= i + 1 <= b) != neg])      # 1-based, inclusive, clipped to the atoms that exist

    def __getattr__(self, nm):
        raise Unsupported(f"Universe model: {nm} not modelled")


class _OneFrameMemoryTrajectory:
    def __init__(self, u):
        self.u = u

    def __len__(self):
        return 1

    def __getitem__(self, k):
        if not isinstance(k, (int, np.integer)) or k not in (0, -1):
            raise IndexError(f"Index {k} exceeds length of trajectory (1).")
        return self

    @property
    def frame(self):
        return 0

    def __getattr__(self, nm):
        raise Unsupported(f"one-frame memory trajectory model: {nm} not modelled")


class FTopology:
    def __init__(self, masses, names):
        self.masses, self.names = masses, list(names)


class FTimestep:
    def __init__(self, u, k):
        self.u, self.frame = u, k

    @property
    def positions(self):
        return self.u.frames[self.frame]          # MemoryReader: a VIEW of the coordinate array (edits are permanent)

    @positions.setter
    def positions(self, v):
        self.u.frames[self.frame] = np.asarray(_strip(v), dtype=object)

    def __getattr__(self, nm):
        raise Unsupported(f"Timestep model: {nm} not modelled")


class FTrajectory:
    """MDAnalysis MemoryReader: iteration visits the frames in order and rewinds to frame 0 afterwards"""

    def __init__(self, u):
        self.u = u

    def __len__(self):
        return len(self.u.frames)

    @property
    def n_frames(self):
        return len(self.u.frames)

    @property
    def ts(self):
        return FTimestep(self.u, self.u._cur)

    def __iter__(self):
        try:
            for k in range(len(self.u.frames)):
                self.u._cur = k
                yield FTimestep(self.u, k)
        finally:
            self.u._cur = 0

    def __getitem__(self, k):
        if isinstance(k, (int, np.integer)):
            n = len(self.u.frames)
            if not -n <= k < n:
                raise IndexError(f"Index {k} exceeds length of trajectory ({n}).")
            self.u._cur = int(k) % n
            return FTimestep(self.u, self.u._cur)
        raise Unsupported("trajectory slicing is not modelled")

    def get_array(self):
        return self.u.frames

    def add_transformations(self, *ts):
        # recorded only: no harness reads coordinates of a universe after transformations were attached to it
        self.u.__dict__.setdefault("_transformations", []).extend(ts)

    def __getattr__(self, nm):
        raise Unsupported(f"trajectory model: {nm} not modelled")


class FMemUniverse(FUniverse):
    """Universe(topology, frames, format=MemoryReader).  MDAnalysis stores `frames.astype(float32, copy=False)`: positions are float32 in
    MDAnalysis, so an ndarray built from positions is NOT copied -- the universe shares memory with the array it was given."""

    def __init__(self, topology, frames, format=None, **kw):
        if kw:
            raise Unsupported(f"Universe keywords {sorted(kw)} not modelled")
        if not isinstance(topology, FTopology):
            raise Unsupported("memory universe from something that is not a topology")
        fr = frames if isinstance(frames, np.ndarray) else np.asarray(_strip(frames), dtype=object)
        if fr.dtype != object:
            fr = fr.astype(object)
        if fr.ndim != 3 or fr.shape[2] != 3:
            raise ValueError(f"coordinate array of shape {fr.shape}")
        if fr.shape[1] != len(topology.names):
            raise ValueError(f"The provided value for n_atoms ({len(topology.names)}) does not match the shape of the coordinate array ({fr.shape[1]})")
        self.frames = fr.view(SArr)
        self.masses = _arr(topology.masses).copy()
        self.names = list(topology.names)
        self.dimensions = None
        self._cur = 0

    @property
    def pos(self):
        fr = self.frames[self._cur]
        shift = None
        for t in self.__dict__.get("_transformations", ()):
            if isinstance(t, tuple) and len(t) == 2 and t[0] == "translate":
                v = np.asarray(_strip(t[1]), dtype=object)
                shift = v if shift is None else shift + v
            else:
                raise Unsupported(f"trajectory transformation {t!r} is not modelled")
        if shift is None:
            return fr
        # on-the-fly transformations: every frame that is read comes out translated (a new array: edits are not written back)
        return (fr + shift).view(SArr)

    @property
    def trajectory(self):
        return FTrajectory(self)

    def copy(self):
        u = FMemUniverse(FTopology(self.masses, self.names), self.frames.copy())
        u._cur, u.dimensions = self._cur, self.dimensions
        return u


# ------------------------------------------------------------------------------------------ file-based universes (mda.Universe(path))
FILE_MASSES = {"C": 12.011, "H": 1.008, "O": 15.999, "N": 14.007}


class FFileTimestep:
    def __init__(self, u):
        self.u = u

    @property
    def frame(self):
        return self.u._cur

    @property
    def positions(self):
        return self.u.pos

    def __getattr__(self, nm):
        raise Unsupported(f"Timestep model: {nm} not modelled")


class FFileTrajectory:
    """reader of a coordinate file.  kind 'multi' (XYZ, PDB, ...): indexing RE-READS the frame from the file and then applies the
    transformations registered with add_transformations; an edit of the current time step (atoms.translate, positions = ...) lives only
    until the next read.  kind 'single' (GRO: SingleFrameReader): indexing frame 0 hands back the current time step as it is."""

    def __init__(self, u):
        self.u = u

    def __len__(self):
        return len(self.u.file_frames)

    @property
    def n_frames(self):
        return len(self.u.file_frames)

    @property
    def ts(self):
        return FFileTimestep(self.u)

    def _apply(self):
        for t in self.u._transformations:
            if isinstance(t, tuple) and len(t) == 2 and t[0] == "translate":
                self.u.pos = self.u.pos + np.asarray(_strip(t[1]), dtype=object)
            else:
                raise Unsupported("only translate transformations are modelled")

    def __getitem__(self, k):
        if not isinstance(k, (int, np.integer)):
            raise Unsupported("trajectory slicing is not modelled")
        n = len(self.u.file_frames)
        if not -n <= k < n:
            raise IndexError(f"Index {k} exceeds length of trajectory ({n}).")
        k = int(k) % n
        if self.u.kind == "single":
            return FFileTimestep(self.u)
        self.u._cur = k
        self.u.pos = self.u.file_frames[k].copy().view(SArr)
        self._apply()
        return FFileTimestep(self.u)

    def add_transformations(self, *ts):
        if self.u._transformations:
            raise ValueError("Can't add transformations again. Please create new Universe object")
        self.u._transformations = list(ts)
        self._apply()                      # MDAnalysis applies them to the current time step at once

    def __getattr__(self, nm):
        raise Unsupported(f"file trajectory model: {nm} not modelled")


class FFileUniverse(FUniverse):
    def __init__(self, file_frames, names, kind="multi", masses=None):
        fr = np.asarray(_strip(file_frames), dtype=object)
        if fr.ndim != 3 or fr.shape[2] != 3 or fr.shape[1] != len(names):
            raise ValueError(f"coordinate frames of shape {fr.shape} for {len(names)} atoms")
        self.file_frames = fr                      # what is on disk: never modified
        self.names = list(names)
        self._mass_table = masses or FILE_MASSES      # guessed from the element; a harness may hand in weights whose float sums are exact
        self.masses = _arr([self._mass_table[nm[0]] for nm in names])
        self.dimensions = None
        self.kind = kind
        self._transformations = []
        self._cur = 0
        self.pos = fr[0].copy().view(SArr)         # the current time step

    @property
    def trajectory(self):
        return FFileTrajectory(self)

    def copy(self):
        """Universe.copy(): a new reader of the same file with the same transformations, at the same frame, holding a COPY of the current
        time step (edits made so far are kept -- until the copy reads a frame again)"""
        u = FFileUniverse(self.file_frames, self.names, self.kind, self._mass_table)
        u._transformations = list(self._transformations)
        u._cur = self._cur
        u.pos = self.pos.copy()
        u.dimensions = self.dimensions
        return u


class MdaFiles:
    """stand-in for the MDAnalysis module where the package opens coordinate files: Universe(path) on a dict of modelled files"""
    def __init__(self, files, masses=None):
        self.files, self.masses = files, masses

    def Universe(self, path, *a, **k):
        if a or k:
            raise Unsupported("mda.Universe(path, ...) with more arguments is not modelled")
        if path not in self.files:
            raise FileNotFoundError(path)
        frames, names, kind = self.files[path]
        return FFileUniverse(frames, names, kind, self.masses)

    def __getattr__(self, nm):
        raise Unsupported(f"MDAnalysis.{nm} is not modelled here")


class TransModel:
    @staticmethod
    def translate(v):
        return ("translate", v)


def write_xyz(path, frames, names):
    with open(path, "w") as f:
        for k, fr in enumerate(frames):
            f.write(f"{len(names)}\nframe {k}\n")
            for nm, r in zip(names, fr):
                f.write(f"{nm} {float(r[0]):.6f} {float(r[1]):.6f} {float(r[2]):.6f}\n")


def write_gro(path, frame, names):
    with open(path, "w") as f:
        f.write("model\n%5d\n" % len(names))
        for i, (nm, r) in enumerate(zip(names, frame)):
            f.write("%5d%-5s%5s%5d%8.3f%8.3f%8.3f\n" % (1, "MOL", nm, i + 1, float(r[0]) / 10, float(r[1]) / 10, float(r[2]) / 10))
        f.write("   5.00000   5.00000   5.00000\n")


def file_universe_selftest(seed=0):
    """the file-universe model against real MDAnalysis readers (XYZ with one and two frames, GRO) over the operations the package uses:
    add_transformations(translate), atoms.translate, copy, indexing the trajectory, positions getter / setter, centre of mass"""
    import os, tempfile, warnings
    import MDAnalysis as mda
    from MDAnalysis import transformations as trans
    rng = np.random.default_rng(seed + 17)
    n = 0
    d = tempfile.mkdtemp(prefix="symx_files_")
    try:
        with warnings.catch_warnings():
            warnings.simplefilter("ignore")
            for kind, nfr in (("multi", 1), ("multi", 2), ("single", 1)):
                names = ["C", "H", "O"][: int(rng.integers(1, 4))]
                frames = np.round(rng.normal(scale=2.0, size=(nfr, len(names), 3)), 1)
                fn = os.path.join(d, "m.xyz" if kind == "multi" else "m.gro")
                (write_xyz(fn, frames, names) if kind == "multi" else write_gro(fn, frames[0], names))
                shift = np.round(rng.normal(size=3), 1)
                for script in ("T0", "A0", "TC0", "AC0", "A0T", "T1" if nfr > 1 else "T", "A10" if nfr > 1 else "A", "TPC0"):
                    ru, fu = mda.Universe(fn), FFileUniverse(frames, names, kind)
                    assert np.allclose(ru.atoms.masses, np.asarray(fu.atoms.masses, dtype=float), atol=1e-3), "guessed masses"
                    for op in script:
                        if op == "T":
                            ru.atoms.translate(shift); fu.atoms.translate(list(shift))
                        elif op == "A":
                            ru.trajectory.add_transformations(trans.translate(-ru.atoms.center_of_mass()))
                            fu.trajectory.add_transformations(TransModel.translate(-fu.atoms.center_of_mass()))
                        elif op == "C":
                            ru, fu = ru.copy(), fu.copy()
                        elif op == "P":
                            ru.atoms.positions = ru.atoms.positions + 1.0; fu.atoms.positions = fu.atoms.positions + 1.0
                        elif op in "01":
                            ru.trajectory[int(op)]; fu.trajectory[int(op)]
                        assert np.allclose(ru.atoms.positions, np.asarray(fu.atoms.positions, dtype=float), atol=1e-3), (kind, nfr, script, op)
                        assert np.allclose(ru.atoms.center_of_mass(), np.asarray(fu.atoms.center_of_mass(), dtype=float), atol=1e-3), (kind, nfr, script, op, "com")
                        n += 1
    finally:
        for f_ in os.listdir(d):
            os.remove(os.path.join(d, f_))
        os.rmdir(d)
    return n


def FMerge(*ags):
    if not ags:
        raise ValueError("Need at least one AtomGroup for merging")
    pos = np.concatenate([np.asarray(a.positions.view(np.ndarray), dtype=object) for a in ags])
    masses = np.concatenate([np.asarray(a.masses.view(np.ndarray), dtype=object) for a in ags])
    return FUniverse(pos, masses, sum([a.names for a in ags], []))


def _sq(v):
    return v.sqrt() if isinstance(v, SR) else math.sqrt(v)


def fcdist(XA, XB, metric="euclidean"):
    XA = np.asarray(_strip(XA), dtype=object)
    XB = np.asarray(_strip(XB), dtype=object)
    if XA.ndim != 2 or XB.ndim != 2 or XA.shape[1] != XB.shape[1]:
        raise ValueError("XA and XB must be 2-d with the same number of columns")
    out = np.empty((len(XA), len(XB)), dtype=object)
    for i, a in enumerate(XA):
        for j, b in enumerate(XB):
            if metric == "euclidean":
                out[i, j] = _sq(sum(((x - y) * (x - y) for x, y in zip(a, b)), 0))
            elif metric in ("cos", "cosine"):
                dot = sum((x * y for x, y in zip(a, b)), 0)
                na = sum((x * x for x in a), 0)
                nb = sum((y * y for y in b), 0)
                out[i, j] = 1 - dot / (_sq(na) * _sq(nb))
            else:
                raise Unsupported(f"cdist metric {metric}")
    return out.view(SArr)


def real_universe(pos, masses, names):
    """a real MDAnalysis universe with the given atoms (used by self-tests and replays)"""
    import MDAnalysis as mda
    n = len(pos)
    u = mda.Universe.empty(n, trajectory=True)
    u.add_TopologyAttr("masses", [float(m) for m in masses])
    u.add_TopologyAttr("names", list(names))
    u.atoms.positions = np.asarray(pos, dtype=np.float32)
    return u


def models_selftest(seed=0, rounds=5):
    """model classes on floats against MDAnalysis / scipy (float32 positions in MDAnalysis: tolerance 1e-4)"""
    import warnings
    from scipy.spatial.transform import Rotation
    from scipy.spatial.distance import cdist
    from MDAnalysis import Merge
    rng = np.random.default_rng(seed + 5)
    n = 0
    with warnings.catch_warnings():
        warnings.simplefilter("ignore")
        for _ in range(rounds):
            k1, k2 = int(rng.integers(1, 4)), int(rng.integers(1, 4))
            p1, p2 = rng.normal(size=(k1, 3)), rng.normal(size=(k2, 3))
            m1, m2 = rng.uniform(1, 16, size=k1), rng.uniform(1, 16, size=k2)
            q = rng.normal(size=4)
            t = rng.normal(size=3)
            Rm = Rotation.from_quat(q).as_matrix()
            Fm = np.asarray(FRot.from_quat(list(q)).as_matrix(), dtype=float)
            assert np.allclose(Rm, Fm, atol=1e-12), ("Rotation.from_quat.as_matrix", Rm, Fm); n += 1
            qs = rng.normal(size=(3, 4))
            assert np.allclose(Rotation.from_quat(qs).as_matrix(), np.asarray(FRot.from_quat(qs).as_matrix(), dtype=float), atol=1e-12); n += 1
            # the facts the matrix-side model states about scipy: magnitude = arccos((trace-1)/2); from_matrix(M).as_quat() is a unit
            # quaternion x with M(x) = M whose component of largest magnitude is positive; Rotation(q).as_quat() = q/|q| (sign kept)
            Ms = Rotation.from_quat(qs).as_matrix()
            assert np.allclose(Rotation.from_matrix(Ms).magnitude(), np.arccos(np.clip((np.trace(Ms, axis1=1, axis2=2) - 1) / 2, -1, 1)), atol=1e-9); n += 1
            xq = Rotation.from_matrix(Ms).as_quat()
            for xrow, Mrow in zip(xq, Ms):
                assert abs(np.linalg.norm(xrow) - 1) < 1e-12 and np.allclose(np.array(rotation_matrix_terms_unit(list(xrow)), dtype=float), Mrow, atol=1e-12)
                assert xrow[int(np.argmax(np.abs(xrow)))] > 0, ("sign rule of from_matrix().as_quat()", xrow)
                n += 1
            assert np.allclose(Rotation(qs).as_quat(), qs / np.linalg.norm(qs, axis=1)[:, None], atol=1e-12); n += 1
            assert np.allclose(np.asarray(FRot(np.array(qs, dtype=object)).as_quat(), dtype=float), qs / np.linalg.norm(qs, axis=1)[:, None], atol=1e-12); n += 1
            ru1, ru2 = real_universe(p1, m1, [f"A{i}" for i in range(k1)]), real_universe(p2, m2, [f"B{i}" for i in range(k2)])
            fu1, fu2 = FUniverse(p1, m1, [f"A{i}" for i in range(k1)]), FUniverse(p2, m2, [f"B{i}" for i in range(k2)])
            assert np.allclose(ru2.atoms.center_of_mass(), np.asarray(fu2.atoms.center_of_mass(), dtype=float), atol=1e-5); n += 1
            # positions getter hands out a copy
            x = ru2.atoms.positions; x += 1.0
            y = fu2.atoms.positions; y += 1.0
            assert np.allclose(ru2.atoms.positions, np.asarray(fu2.atoms.positions, dtype=float), atol=1e-5); n += 1
            rc, fc = ru2.copy(), fu2.copy()
            rc.atoms.translate(t); fc.atoms.translate(t); rc.trajectory[0]; fc.trajectory[0]      # seeking frame 0 of a one-frame memory universe keeps the edit
            assert np.allclose(rc.atoms.positions, np.asarray(fc.atoms.positions, dtype=float), atol=1e-4); n += 1
            rc, fc = ru2.copy(), fu2.copy()
            rc.atoms.rotate(Rm, point=rc.atoms.center_of_mass()); fc.atoms.rotate(Fm, point=fc.atoms.center_of_mass())
            rc.atoms.translate(t); fc.atoms.translate(t)
            assert np.allclose(rc.atoms.positions, np.asarray(fc.atoms.positions, dtype=float), atol=1e-4); n += 1
            assert np.allclose(ru2.atoms.positions, np.asarray(fu2.atoms.positions, dtype=float), atol=1e-5); n += 1  # copy is independent
            rm, fm = Merge(ru1.atoms, rc.atoms), FMerge(fu1.atoms, fc.atoms)
            assert np.allclose(rm.atoms.positions, np.asarray(fm.atoms.positions, dtype=float), atol=1e-4); n += 1
            assert list(rm.atoms.names) == fm.atoms.names; n += 1
            # slices of an atom group act on the universe they come from
            if k1 + k2 >= 2:
                rm.atoms[1:].translate(t); fm.atoms[1:].translate(t)
                assert np.allclose(rm.atoms.positions, np.asarray(fm.atoms.positions, dtype=float), atol=1e-4); n += 1
                rm2, fm2 = rm.copy(), fm.copy()
                rm2.atoms[:1].translate(t); fm2.atoms[:1].translate(t)
                assert np.allclose(rm.atoms.positions, np.asarray(fm.atoms.positions, dtype=float), atol=1e-4); n += 1     # a copy is independent
                assert np.allclose(rm2.atoms.positions, np.asarray(fm2.atoms.positions, dtype=float), atol=1e-4); n += 1
            rc.atoms.translate(t)  # the merged universe does not follow its sources
            fc.atoms.translate(t)
            assert np.allclose(rm.atoms.positions, np.asarray(fm.atoms.positions, dtype=float), atol=1e-4); n += 1
            # memory universes: sharing with the float32 array they are built from, permanent edits while iterating, rewind, bynum selection
            from MDAnalysis import Universe as RU
            from MDAnalysis.coordinates.memory import MemoryReader as RMR
            nfr = 3
            fr = np.asarray(rng.normal(size=(nfr, k1 + k2, 3)), dtype=np.float32)
            ffr = sarr([[[float(x) for x in at] for at in f_] for f_ in fr])
            rmu, fmu = RU(rm._topology, fr, format=RMR), FMemUniverse(fm._topology, ffr, format="MR")
            for (uu, arr) in ((rmu, fr), (fmu, ffr)):
                for ts in uu.trajectory:
                    uu.atoms.translate(t)
                sel = uu.select_atoms(f"bynum  {k1 + 1}:{k1 + k2 + 1}")
                assert list(sel.indices) == list(range(k1, k1 + k2)); n += 1
                assert len(uu.trajectory) == nfr
                sub = uu.trajectory.get_array()[:, k1:, :]
                sub[0, 0, 0] = 77.0                                   # a slice of the coordinate array is a view
            assert np.allclose(fr, np.asarray(ffr, dtype=float), atol=1e-4); n += 1            # both source arrays saw every edit
            assert np.allclose(rmu.atoms.positions, np.asarray(fmu.atoms.positions, dtype=float), atol=1e-4); n += 1   # rewound to frame 0
            assert np.allclose(rmu.trajectory[nfr - 1].positions, np.asarray(fmu.trajectory[nfr - 1].positions, dtype=float), atol=1e-4); n += 1
            # on-the-fly translation attached to a memory trajectory: every frame that is read comes out shifted
            import MDAnalysis.transformations as rtrans
            fr2 = np.asarray(rng.normal(size=(2, k1 + k2, 3)), dtype=np.float32)
            rmu2 = RU(rm._topology, fr2.copy(), format=RMR)
            fmu2 = FMemUniverse(fm._topology, sarr([[[float(x) for x in at] for at in f_] for f_ in fr2]))
            rmu2.trajectory.add_transformations(rtrans.translate(t))
            fmu2.trajectory.add_transformations(("translate", t))
            for k_ in (1, 0):
                rmu2.trajectory[k_]; fmu2.trajectory[k_]
                assert np.allclose(rmu2.atoms.positions, np.asarray(fmu2.atoms.positions, dtype=float), atol=1e-4); n += 1
                assert np.allclose(rmu2.select_atoms(f"not bynum {k1 + 1}:{k1 + k2 + 1}").center_of_mass(),
                                   np.asarray(fmu2.select_atoms(f"not bynum {k1 + 1}:{k1 + k2 + 1}").center_of_mass(), dtype=float), atol=1e-4); n += 1
            A, B = rng.normal(size=(3, 3)), rng.normal(size=(2, 3))
            for metric in ("euclidean", "cosine"):
                assert np.allclose(cdist(A, B, metric=metric), np.asarray(fcdist(A, B, metric=metric), dtype=float), atol=1e-12); n += 1
    return n
