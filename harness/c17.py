"""C17 -- grid names normalise to one valid (algorithm, N) or are rejected with ValueError.

The real `NameParser` / `GridNameParser` run on a name that is a sequence of tokens; every numeric token carries a
SYMBOLIC value n >= 0 (plain or zero-padded), every other token is a concrete word from the alphabet of the
property.  One run per token structure covers all values of all numbers in it.
"""
import itertools

import z3

from symx.core import Engine, SR, SB, Unsupported
from symx.prove import Prover
from symx.runner import Acc
from harness.common import bound, fval

PROPERTY = "C17"
FUNCTIONS = ["molgri.naming.NameParser.__init__", "NameParser._find_a_number", "NameParser._find_algorithm", "NameParser._find_dimensions",
             "molgri.naming.GridNameParser.__init__", "GridNameParser.get_standard_grid_name", "GridNameParser.get_alg", "GridNameParser.get_N"]
STUBS = ["the name is a token-sequence object implementing split('_'), `in`, formatting; a numeric token implements isnumeric/int/len/[i]/== "
         "symbolically; any other str method raises Unsupported (harness error, never a pass)", "builtins.int -> symbolic value of a numeric token"]
ASSUMPTIONS = ["numeric tokens are ASCII digit strings with value < 10^6", "roles are 'o' and 'b'"]
OUTSIDE = ["constructing the grid from the standard name yields N points (concrete generation, see DESIGN §6)", "names with a dimension tag (3d)",
           "non-ASCII digits", "more tokens than the bound"]

ALGS_O = ("randomS", "cube3D", "ico")
ALGS_B = ("randomQ", "cube4D", "fulldiv")
WORDS = list(ALGS_O + ALGS_B) + ["zero3D", "zero4D", "zero", "none", "None", "abc", "-3", ""]
KINDS = WORDS + ["<NUM>", "<0NUM>"]
MAXN = 10 ** 6


def bounds(tier):
    return {"tokens": "1..3" if tier == "quick" else "1..4", "alphabet": KINDS, "roles": ["o", "b"], "numeric_value": "symbolic, 0 <= n < 10^6"}


def shapes(tier, seed):
    maxlen = 3 if tier == "quick" else 4
    out = []
    for l in range(1, maxlen + 1):  # every string splits into at least one token ('' -> [''])
        for first in (itertools.product(range(len(KINDS)), repeat=min(l, 1))):
            for role in "ob":
                out.append({"len": l, "first": list(first), "role": role})
    return out


class Dig:
    """one character of a numeric token"""

    def isnumeric(self):
        return True

    def __eq__(self, o):
        if isinstance(o, str) and not o.isdigit():
            return False
        raise Unsupported("comparison of a symbolic digit with a digit string")

    __hash__ = None


class NumTok:
    """numeric token with symbolic value n (z3 Int) and `pad` leading zeros"""

    def __init__(self, n, pad=0):
        self.n = n
        self.pad = pad

    def isnumeric(self):
        return True

    def isdigit(self):
        return True

    def __eq__(self, o):
        if isinstance(o, str):
            if not o.isdigit():
                return False
            raise Unsupported("comparison of a numeric token with a digit string")
        return NotImplemented

    __hash__ = None

    def __len__(self):
        e = Engine.cur
        k = 1
        while k < 7:
            if e.decide(self.n < 10 ** k):
                return k + self.pad
            k += 1
        raise Unsupported("numeric token beyond the digit bound")

    def __getitem__(self, i):
        if isinstance(i, int):
            return Dig()
        raise Unsupported("slicing a numeric token")

    def __format__(self, spec):
        t = z3.simplify(self.n)
        return "0" * self.pad + (str(t.as_long()) if z3.is_int_value(t) else f"<{t}>")

    def __str__(self):
        return format(self, "")

    def __getattr__(self, nm):
        raise Unsupported(f"str method {nm!r} on a numeric token is not modelled")


class Name:
    def __init__(self, toks):
        self.toks = toks

    def split(self, sep=None, maxsplit=-1):
        if sep != "_" or maxsplit != -1:
            raise Unsupported("only split('_') is modelled")
        return list(self.toks)

    def __contains__(self, sub):
        if not isinstance(sub, str) or any(ch.isdigit() or ch == "_" for ch in sub):
            raise Unsupported("substring test with digits/underscore")
        return sub in "_".join(t if isinstance(t, str) else "0" for t in self.toks)

    def __format__(self, spec):
        return "_".join(str(t) for t in self.toks)

    __str__ = lambda self: format(self, "")

    # a name can be put into sets / used as a dict key like the string it stands for (its numbers rendered as <variable>)
    def __hash__(self):
        return hash(format(self, ""))

    def __eq__(self, o):
        if isinstance(o, (str, Name)):
            return format(self, "") == format(o, "")
        return NotImplemented

    def __getattr__(self, nm):
        raise Unsupported(f"str method {nm!r} on the name is not modelled")


# ------------------------------------------------------------------------------------------ regular expressions on symbolic names
class _Rendered:
    """a name rendered for pattern matching: every numeric token becomes a UNIQUE placeholder digit string (its leading zeros kept), so that
    the real `re` engine decides the token structure; a matched placeholder is mapped back to the symbolic token.  Sound for patterns that
    treat digit strings uniformly (\\d+ and friends); a match that cuts a placeholder apart is Unsupported."""

    def __init__(self, name):
        self.map = {}
        parts = []
        k = 0
        for t in name.toks:
            if isinstance(t, NumTok):
                k += 1
                ph = "0" * t.pad + str(7000 + k)
                self.map[ph] = t
                parts.append(ph)
            else:
                parts.append(t)
        self.text = "_".join(parts)

    def back(self, x):
        if x is None or not isinstance(x, str):
            return x
        if x in self.map:
            return self.map[x]
        if any(ph.lstrip("0") in x for ph in self.map):
            raise Unsupported(f"a regular expression match cuts through / joins numeric tokens: {x!r}")
        return x


class _MatchShim:
    def __init__(self, m, r):
        self.m, self.r = m, r

    def group(self, *a):
        g = self.m.group(*a)
        return tuple(self.r.back(x) for x in g) if isinstance(g, tuple) else self.r.back(g)

    def groups(self, *a):
        return tuple(self.r.back(x) for x in self.m.groups(*a))

    def __getitem__(self, k):
        return self.r.back(self.m[k])

    def __bool__(self):
        return True

    def __getattr__(self, nm):
        raise Unsupported(f"match object attribute {nm!r} is not modelled")


class PatternShim:
    """a compiled pattern that also accepts the symbolic name object"""

    def __init__(self, pat):
        self.pat = pat

    def _on(self, fn, s, *a, **k):
        if not isinstance(s, Name):
            return getattr(self.pat, fn)(s, *a, **k)
        r = _Rendered(s)
        out = getattr(self.pat, fn)(r.text, *a, **k)
        if fn in ("findall", "split"):
            return [tuple(r.back(x) for x in o) if isinstance(o, tuple) else r.back(o) for o in out]
        if fn in ("match", "search", "fullmatch"):
            return None if out is None else _MatchShim(out, r)
        if fn == "finditer":
            return iter([_MatchShim(m, r) for m in out])
        raise Unsupported(f"re: {fn} on a symbolic name is not modelled")

    def __getattr__(self, nm):
        if nm in ("findall", "split", "match", "search", "fullmatch", "finditer"):
            return lambda s, *a, **k: self._on(nm, s, *a, **k)
        if nm in ("sub", "subn"):
            def f(repl, s, *a, **k):
                if isinstance(s, Name):
                    raise Unsupported("re.sub on a symbolic name is not modelled")
                return getattr(self.pat, nm)(repl, s, *a, **k)
            return f
        return getattr(self.pat, nm)


class ReShim:
    """stand-in for the `re` module inside the target module"""

    def __init__(self):
        import re
        self._re = re

    def compile(self, p, *a, **k):
        return PatternShim(self._re.compile(p, *a, **k))

    def __getattr__(self, nm):
        if nm in ("findall", "split", "match", "search", "fullmatch", "finditer", "sub", "subn"):
            return lambda p, *a, **k: getattr(PatternShim(self._re.compile(p) if isinstance(p, str) else (p.pat if isinstance(p, PatternShim) else p)), nm)(*a, **k)
        return getattr(self._re, nm)


def re_bindings(module):
    """rebind `re` and every compiled pattern among the module's globals"""
    import re
    out = {}
    for k, v in list(vars(module).items()):
        if v is re:
            out[k] = ReShim()
        elif isinstance(v, re.Pattern):
            out[k] = PatternShim(v)
    return out


def sym_int_tok(x, *a):
    if isinstance(x, NumTok):
        return SR(z3.ToReal(x.n))
    if isinstance(x, Dig):
        raise ValueError("invalid literal for int() with base 10: '<digit>d'")
    if isinstance(x, SR):
        return x
    return int(x, *a)


def _valid_algs(role):
    return (ALGS_O + ("zero3D",)) if role == "o" else (ALGS_B + ("zero4D",))


def run_shape(shape):
    import molgri.naming as NM
    role = shape["role"]
    maxrest = shape["len"] - len(shape["first"])
    prover = Prover(timeout_ms=10000, budget_s=900)
    acc = Acc(shape)
    stats = {}
    nviol = 0
    for rest in itertools.product(range(len(KINDS)), repeat=maxrest):
        kinds = tuple(shape["first"]) + rest
        if nviol >= 4:
            break
        eng = Engine()
        ns = [z3.Int(f"n{i}") for i in range(len(kinds))]
        eng.assume_global(*[z3.And(n >= 0, n < MAXN) for n in ns])

        def mk(i, k):
            if KINDS[k] == "<NUM>":
                return NumTok(ns[i], 0)
            if KINDS[k] == "<0NUM>":
                return NumTok(ns[i], 1)
            return KINDS[k]

        def body():
            with bound(NM, int=sym_int_tok, **re_bindings(NM)):
                p = NM.GridNameParser(Name([mk(i, k) for i, k in enumerate(kinds)]), role)
                alg, N, std = p.get_alg(), p.get_N(), p.get_standard_grid_name()
                # re-parse the standard name alg_N
                if isinstance(alg, str) and isinstance(N, (SR, int)):
                    Nt = z3.simplify(N.z) if isinstance(N, SR) else z3.RealVal(N)
                    if z3.is_rational_value(Nt) and Nt.denominator_as_long() == 1:
                        n2 = z3.IntVal(Nt.numerator_as_long())
                    elif z3.is_app(Nt) and Nt.decl().kind() == z3.Z3_OP_TO_REAL:
                        n2 = Nt.arg(0)          # the very integer that was in the name: the standard name is spelled with it
                    else:
                        n2 = z3.Int("n_std")
                        Engine.cur.axiom(z3.ToReal(n2) == Nt)
                        Engine.cur.axiom(n2 < MAXN)
                    other = "b" if role == "o" else "o"
                    try:
                        px = NM.GridNameParser(Name([alg, NumTok(n2, 0)]), other)
                        cross = (px.get_alg(), px.get_N())
                    except Exception as ex:  # noqa: BLE001 - a result of this second call, not of the parse under test
                        cross = ex
                    try:
                        p2 = NM.GridNameParser(Name([alg, NumTok(n2, 0)]), role)
                    except Exception as e2:  # noqa: BLE001 - the re-parse failing is a result, not the outcome of the parse
                        return alg, N, std, e2, None, cross
                    return alg, N, std, p2.get_alg(), p2.get_N(), cross
                return alg, N, std, None, None, None

        words = [KINDS[k] for k in kinds]
        n_num = sum(1 for w in words if w in ("<NUM>", "<0NUM>"))
        n_alg = sum(1 for w in words if w in ALGS_O + ALGS_B + ("zero3D", "zero4D"))
        has_zero = any("zero" in w for w in words)
        tag = "_".join(words) + "/" + role
        cexinfo = {"kinds": words, "role": role}
        for path in eng.explore(body):
            acc.begin(prover, path)
            if acc.reachable is not True:
                acc.reach(prover.satisfiable(path.premises))
            if path.kind == "exc":
                ok = isinstance(path.value, ValueError)
                m = _model(path) if not ok else None
                acc.structural(f"only_ValueError:{tag}", ok, detail=repr(path.value), cex=dict(cexinfo, kind="exception", exc=type(path.value).__name__, model=m))
                nviol += 0 if ok else 1
                continue
            alg, N, std, alg2, N2, cross = path.value
            must_reject = n_num >= 2 or n_alg >= 2
            m = _model(path)
            acc.structural(f"rejects_two_numbers_or_two_algorithms:{tag}", not must_reject, detail=(alg, str(N)), cex=dict(cexinfo, model=m))
            ok_alg = alg in _valid_algs(role)
            acc.structural(f"algorithm_valid_for_role:{tag}", ok_alg, detail=alg, cex=dict(cexinfo, model=m))
            if must_reject or not ok_alg or not isinstance(N, (SR, int)):
                nviol += 1
                if not isinstance(N, (SR, int)):
                    acc.structural(f"N_is_a_number:{tag}", False, detail=repr(N), cex=dict(cexinfo, model=m))
                continue
            Nz = N.z if isinstance(N, SR) else z3.RealVal(N)
            claims = [(f"N>=1:{tag}", Nz >= 1),
                      (f"N==1_iff_zero_algorithm:{tag}", (Nz == 1) == z3.BoolVal(alg.startswith("zero")))]
            if n_alg == 0 and not has_zero:
                claims.append((f"bare_number_gets_default:{tag}", z3.Implies(Nz > 1, z3.BoolVal(alg == ("ico" if role == "o" else "cube4D")))))
            if n_num == 1:
                i = next(i for i, w in enumerate(words) if w in ("<NUM>", "<0NUM>"))
                claims.append((f"N_is_the_number_in_the_name:{tag}", Nz == z3.ToReal(ns[i])))
            if n_alg == 1 and not has_zero:
                a = next(w for w in words if w in ALGS_O + ALGS_B)
                claims.append((f"algorithm_kept:{tag}", z3.Implies(Nz > 1, z3.BoolVal(alg == a))))
            # the standard name handed to the OTHER role afterwards (history in one process): a zero name becomes that role's zero
            # grid, every other standard name belongs to this role only and must be rejected there
            if ok_alg and cross is not None:
                other = "b" if role == "o" else "o"
                if alg.startswith("zero"):
                    okx = isinstance(cross, tuple) and cross[0] == ("zero4D" if other == "b" else "zero3D")
                else:
                    okx = isinstance(cross, ValueError)
                acc.structural(f"standard_name_in_the_other_role:{tag}", okx, detail=repr(cross), cex=dict(cexinfo, model=m, cross=True))
            acc.structural(f"reparse_same_algorithm:{tag}", alg2 == alg, detail=(alg, repr(alg2)), cex=dict(cexinfo, model=m))
            if isinstance(N2, (SR, int)):
                N2z = N2.z if isinstance(N2, SR) else z3.RealVal(N2)
                claims.append((f"reparse_same_N:{tag}", N2z == Nz))
            res = prover.prove_all(path.premises, claims)
            acc.add(res, make_cex=lambda r, c=cexinfo: dict(c))
            nviol += sum(1 for r in res if r.verdict == "cex")
        for k_, v in eng.stats.items():
            stats[k_] = stats.get(k_, 0) + v
    return acc.result(stats, prover.stats)


def _model(path):
    s = z3.Solver()
    s.set("timeout", 3000)
    s.add(*path.premises)
    if s.check() == z3.sat:
        from symx.prove import model_to_dict
        return {k: (str(v) if not isinstance(v, bool) else v) for k, v in model_to_dict(s.model()).items()}
    return {}


# ------------------------------------------------------------------------------------------ replay on the real code
def concrete_name(kinds, model):
    toks = []
    for i, w in enumerate(kinds):
        if w in ("<NUM>", "<0NUM>"):
            n = int(fval(model or {}, f"n{i}", 7))
            toks.append(("0" if w == "<0NUM>" else "") + str(n))
        else:
            toks.append(w)
    return "_".join(toks)


def concrete_violations(name, role):
    """the property evaluated on the real parser for one concrete name"""
    import molgri.naming as NM
    toks = name.split("_")
    n_num = sum(1 for t in toks if t.isnumeric())
    n_alg = sum(1 for t in toks if t in ALGS_O + ALGS_B + ("zero3D", "zero4D"))
    try:
        p = NM.GridNameParser(name, role)
    except ValueError:
        return []
    except Exception as e:  # noqa: BLE001
        return [f"raised {type(e).__name__}: {e}"]
    alg, N = p.get_alg(), p.get_N()
    bad = []
    if n_num >= 2 or n_alg >= 2:
        bad.append(f"accepted a name with {n_num} numbers / {n_alg} algorithm tokens -> {alg}_{N}")
    if alg not in _valid_algs(role):
        bad.append(f"algorithm {alg!r} not valid for role {role}")
    if not isinstance(N, int) or N < 1:
        bad.append(f"N={N!r}")
    elif (N == 1) != str(alg).startswith("zero"):
        bad.append(f"N={N} with algorithm {alg}")
    if not bad:
        if n_num == 1 and N != int(next(t for t in toks if t.isnumeric())):
            bad.append(f"N={N} is not the number in the name")
        if n_alg == 0 and "zero" not in name and N > 1 and alg != ("ico" if role == "o" else "cube4D"):
            bad.append(f"bare number got {alg}")
        if n_alg == 1 and "zero" not in name and N > 1 and alg != next(t for t in toks if t in ALGS_O + ALGS_B):
            bad.append(f"algorithm changed to {alg}")
        try:
            p2 = NM.GridNameParser(p.get_standard_grid_name(), role)
            if (p2.get_alg(), p2.get_N()) != (alg, N):
                bad.append(f"re-parse gives {p2.get_alg()}_{p2.get_N()}")
        except Exception as e:  # noqa: BLE001
            bad.append(f"re-parse raised {e!r}")
    return bad


def replay(cex):
    name = concrete_name(cex["kinds"], cex.get("model"))
    if cex.get("cross"):
        import molgri.naming as NM
        role = cex["role"]
        other = "b" if role == "o" else "o"
        try:
            std = NM.GridNameParser(name, role).get_standard_grid_name()
        except Exception as e:  # noqa: BLE001
            return {"reproduced": False, "detail": f"first parse raised {e!r}"}
        try:
            px = NM.GridNameParser(std, other)
            got = (px.get_alg(), px.get_N())
        except ValueError as e:
            got = e
        except Exception as e:  # noqa: BLE001
            return {"reproduced": True, "detail": f"GridNameParser({name!r}, {role!r}) then GridNameParser({std!r}, {other!r}) raised {e!r}"}
        if std.startswith("zero"):
            ok = isinstance(got, tuple) and got[0] == ("zero4D" if other == "b" else "zero3D") and got[1] == 1
        else:
            ok = isinstance(got, ValueError)
        return {"reproduced": not ok, "detail": f"GridNameParser({name!r}, {role!r}) -> {std}; then GridNameParser({std!r}, {other!r}) -> {got!r}"}
    bad = concrete_violations(name, cex["role"])
    return {"reproduced": bool(bad), "detail": f"GridNameParser({name!r}, {cex['role']!r}): {bad}"}


def finding_key(cex):
    ob = cex["obligation"].split(":")[0]
    has_num = any(k in ("<NUM>", "<0NUM>") for k in cex.get("kinds", []))
    has_alg = any(k in ALGS_O + ALGS_B + ("zero3D", "zero4D") for k in cex.get("kinds", []))
    return f"C17:{ob}:{cex.get('exc', '')}:num={has_num}:alg={has_alg}"


def selftest(seed):
    # the token model against real str for the operations the parser uses (concrete values)
    n = 0
    for s in ("12", "007", "0", "999999"):
        assert s.isnumeric() and len(s) == len(s) and not (s in WORDS)
        n += 1
    return n
