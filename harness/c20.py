"""C20 -- persisted grids and energy tables are read back value- and order-exact.

Two harness families, both executing the real `molgri.io` code on symbolic inputs:

  xvg      `EnergyReader.load_energy` / `_get_column_names` / `load_single_energy_column` run on a FILE whose header lines have
           SYMBOLIC kinds (each header line is a '#' line or an '@' line, '#' lines first, at most 13 of them, at least 13 header lines;
           which '@' lines are series legends and which legend index s<i> they carry is symbolic as well) and whose data values are
           symbolic reals.  `open` hands out line objects whose `startswith` / `split('"')` answer symbolically (forking the path);
           `pd.read_csv` is a model of the documented semantics of the keyword arguments the reader passes (skiprows counts physical
           lines, full-line comments are dropped, header=None, names) -- the model is differentially self-tested against the real pandas
           on concrete files on every run.
  persist  the real `GridWriter.__init__` / `save_*` and `GridReader.load_*` with np.save / np.load / save_npz / load_npz modelled as the
           identity on (format, index arrays, data) (self-tested on real files): every artefact read back is entry-wise the value the
           grid's getter produces, in the same storage format and stored order; writing does not disturb the grid (second write / getter
           after write give the same), and the five files do not get mixed up.
"""
import itertools
import os
import re
import tempfile

import numpy as np
import z3

from symx.core import Engine, SR, SB, Unsupported, noprint
from symx.arr import sarr, SArr
from symx import sparse as sp
from symx.npproxy import NPProxy
from symx.prove import Prover, model_to_dict
from symx.runner import Acc
from harness.common import bound, z, fval

PROPERTY = "C20"
FUNCTIONS = ["molgri.io.EnergyReader.__init__", "EnergyReader.load_energy", "EnergyReader._get_column_names", "EnergyReader.load_single_energy_column",
             "molgri.io.GridWriter.__init__", "GridWriter.save_full_grid/save_volumes/save_borders_array/save_distances_array/save_adjacency_array",
             "molgri.io.GridReader.load_full_grid/load_volumes/load_borders_array/load_distances_array/load_adjacency_array",
             "(below the writer) FullGrid getters as in C02"]
STUBS = ["builtins.open -> an in-memory file whose lines are objects with symbolic kind; only startswith(<literal>) and split('\"') are modelled, any "
         "other str method is Unsupported (harness error)",
         "pandas.read_csv -> model of skiprows=<int> (physical lines), comment=<char> (full-line comments dropped), sep=r'\\s+', header=None|int, names; "
         "any other keyword is Unsupported; differentially self-tested against real pandas on concrete xvg files",
         "np.save/np.load, scipy.sparse.save_npz/load_npz -> identity on (format, index arrays, data); self-tested on real files",
         "Qhull geometry below the FullGrid getters -> contract stubs as in C02"]
ASSUMPTIONS = ["xvg files have the GROMACS structure of the statement: '#' lines first (<= 13), then '@' lines, >= 13 header lines, <= 10 legends "
               "numbered in increasing order, legend texts without a double quote, data lines with 1 + #legends whitespace separated numbers",
               "float parsing of the data fields is pandas' (the values are symbolic reals from the parser's output on)"]
OUTSIDE = ["csv round trip (pandas to_csv/read_csv, nothing of molgri in between)", "the byte formats npy/npz themselves", "more header lines / legends than the bound",
           "files that violate the stated structure"]

TIME = "Time [ps]"


# ================================================================================================ pandas model
class ModelParserError(ValueError):
    pass


class Series:
    def __init__(self, vals):
        self.vals = vals

    def to_numpy(self, *a, **k):
        if a or k:
            raise Unsupported("Series.to_numpy with arguments")
        if any(isinstance(v, SR) for v in self.vals):
            return sarr(list(self.vals))
        return np.array(self.vals)

    def __len__(self):
        return len(self.vals)


class Frame:
    """what read_csv returns: column names, rows (lists of fields), number of leading fields that became the index"""

    def __init__(self, columns, rows, n_index=0):
        self.columns = list(columns)
        self.rows = rows
        self.n_index = n_index

    @property
    def shape(self):
        return (len(self.rows), len(self.columns))

    def __len__(self):
        return len(self.rows)

    def to_numpy(self, *a, **k):
        if a or k:
            raise Unsupported("DataFrame.to_numpy with arguments")
        body = [list(r[self.n_index:]) for r in self.rows]
        if not body:
            return np.zeros((0, len(self.columns)))
        if any(isinstance(v, SR) for r in body for v in r):
            return sarr(body)
        return np.array(body)

    def __getitem__(self, name):
        if isinstance(name, (list, tuple)):
            raise Unsupported("frame[list]")
        hits = [i for i, c in enumerate(self.columns) if c == name]
        if len(hits) != 1:
            raise KeyError(name)
        i = hits[0] + self.n_index
        return Series([(r[i] if i < len(r) else None) for r in self.rows])

    def _positions(self, subset):
        if subset is None:
            return list(range(self.n_index, self.n_index + len(self.columns)))
        labels = list(subset) if isinstance(subset, (list, tuple)) else [subset]
        out = []
        for lb in labels:
            hits = [i for i, c in enumerate(self.columns) if c == lb]
            if len(hits) != 1:
                raise KeyError(lb)
            out.append(hits[0] + self.n_index)
        return out

    def drop_duplicates(self, subset=None, keep="first", inplace=False, ignore_index=False):
        """pandas: a row is dropped when an EARLIER row has equal values in the subset columns (keep='first'); equality of two parsed numbers
        is decided by the solver (forks on symbolic values)"""
        if keep != "first" or inplace:
            raise Unsupported("drop_duplicates(keep != 'first' / inplace)")
        pos = self._positions(subset)
        kept = []
        for r in self.rows:
            dup = False
            for q in kept:
                same = True
                for i in pos:
                    a, b = (r[i] if i < len(r) else None), (q[i] if i < len(q) else None)
                    if a is None or b is None:
                        eq = a is None and b is None
                    else:
                        eq = bool(a == b)
                    if not eq:
                        same = False
                        break
                if same:
                    dup = True
                    break
            if not dup:
                kept.append(r)
        if self.n_index and ignore_index:
            raise Unsupported("drop_duplicates(ignore_index=True) on a frame whose index came from the file")
        return Frame(self.columns, [list(r) for r in kept], self.n_index)

    def reset_index(self, drop=False, **k):
        if k or not drop or self.n_index:
            raise Unsupported("reset_index other than (drop=True) on a default index")
        return Frame(self.columns, [list(r) for r in self.rows], 0)

    def copy(self, *a, **k):
        return Frame(self.columns, [list(r) for r in self.rows], self.n_index)

    def __getattr__(self, nm):
        raise Unsupported(f"DataFrame.{nm} is not modelled")


def read_csv_model(lines, truth, sep=",", comment=None, skiprows=None, header="infer", names=None, usecols=None, **kw):
    """pandas.read_csv on a list of line objects.  `truth(x)` turns the answer of a line predicate into a Python bool (forking for
    symbolic lines).  Line protocol: is_comment(ch) -> full-line comment?; fields() -> list of whitespace separated fields or None if
    the line is not a plain data line (then `junk_kind()` names what it is)."""
    if kw:
        raise Unsupported(f"read_csv keyword(s) {sorted(kw)} not modelled")
    if sep not in (r"\s+",):
        raise Unsupported(f"read_csv sep={sep!r} not modelled")
    if skiprows is None:
        skiprows = 0
    if isinstance(skiprows, SR):
        raise Unsupported("symbolic skiprows")
    if not isinstance(skiprows, (int, np.integer)):
        raise Unsupported("read_csv skiprows as a list/callable is not modelled")
    rest = list(lines)[int(skiprows):]
    if comment is not None:
        rest = [ln for ln in rest if not truth(ln.is_comment(comment))]
    if header == "infer":
        header = 0 if names is None else None
    if header is not None:
        if not isinstance(header, (int, np.integer)):
            raise Unsupported("read_csv header list")
        if len(rest) <= header:
            if names is None:
                raise ModelParserError("No columns to parse from file")
            rest = []
        else:
            hdr = rest[int(header)]
            rest = rest[int(header) + 1:]
            if names is None:
                names = hdr.fields()
    rows = []
    for ln in rest:
        f = ln.fields()
        if f is None:
            # a '#' / '@' line that reaches the tokenizer: its words become a row (or a ParserError) -- never the table of the data lines
            raise ModelParserError(f"a {ln.junk_kind()} line is parsed as data")
        rows.append(list(f))
    if usecols is not None:
        # usecols=[positions]: only these fields of every row, in increasing position order (pandas ignores the order given)
        try:
            cols = sorted({int(c) for c in usecols})
        except (TypeError, ValueError):
            raise Unsupported("read_csv usecols by label / callable")
        if rows and cols and cols[-1] >= max(len(r) for r in rows):
            raise ModelParserError("Usecols do not match columns, columns expected but not found")
        if names is not None:
            if len(names) == len(cols):
                pass                                   # names for the selected columns only
            else:
                names = [list(names)[c] for c in cols] if len(names) > cols[-1] else names
        rows = [[r[c] for c in cols] for r in rows]
        if names is None:
            names = list(cols)                         # header=None: integer labels of the selected positions
    if names is None:
        if not rows:
            return Frame([], [], 0)
        names = list(range(max(len(r) for r in rows)))  # header=None without names: integer labels
    names = list(names)
    n_index = 0
    if rows:
        w = max(len(r) for r in rows)
        if any(len(r) != w for r in rows):
            raise Unsupported("ragged rows")
        if w > len(names):
            n_index = w - len(names)     # pandas: surplus leading fields become the index
        elif w < len(names):
            rows = [r + [None] * (len(names) - w) for r in rows]
    return Frame(names, rows, n_index)


class PDModel:
    def __init__(self, fs, truth):
        self.fs, self.truth = fs, truth

    def read_csv(self, path, **kw):
        if path not in self.fs:
            raise FileNotFoundError(path)
        return read_csv_model(self.fs[path], self.truth, **kw)

    def __getattr__(self, nm):
        raise Unsupported(f"pandas.{nm} is not modelled")


# ================================================================================================ symbolic xvg lines
_LEG = re.compile(r"^@ s(\d+) legend$")


class XLine:
    """one line of the file.  Header lines: `hash` (z3 Bool; otherwise an '@' line), `leg` (z3 Bool: a series legend), `idx` (z3 Int:
    its number), `label`.  Data lines: `vals` (list of SR)."""

    def __init__(self, k, hash_=None, leg=None, idx=None, label=None, vals=None):
        self.k, self.hash, self.leg, self.idx, self.label, self.vals = k, hash_, leg, idx, label, vals
        self._memo = {}       # decisions already taken about this line on the current path (the line objects are rebuilt for every path)

    def _d(self, key, term):
        if key not in self._memo:
            self._memo[key] = bool(SB(term))
        return self._memo[key]

    @property
    def is_data(self):
        return self.vals is not None

    def _is_hash(self):
        return z3.BoolVal(False) if self.is_data else self.hash

    def _is_at(self):
        return z3.BoolVal(False) if self.is_data else z3.Not(self.hash)

    def startswith(self, prefix, *a):
        if a:
            raise Unsupported("startswith with offsets")
        if isinstance(prefix, tuple):        # str.startswith(tuple): any of them
            for p_ in prefix:
                if bool(self.startswith(p_)):
                    return True
            return False
        if not isinstance(prefix, str):
            raise Unsupported("startswith with a non-string")
        if prefix == "":
            return True
        if prefix == "#":
            return False if self.is_data else self._d("hash", self.hash)
        if prefix in ("@", "@ ", "@ s"):
            if prefix == "@":
                return False if self.is_data else not self._d("hash", self.hash)
            raise Unsupported(f"startswith({prefix!r}): the text after '@' of a non-legend line is not modelled")
        m = _LEG.match(prefix)
        if m:
            if self.is_data:
                return False
            # decided atom by atom (each a cached unit decision on this path) instead of one fork on the conjunction
            if self._d("hash", self.hash) or not self._d("leg", self.leg):
                return False
            i_ = int(m.group(1))
            if any(v for k_, v in self._memo.items() if isinstance(k_, tuple) and k_[1] != i_):
                return False        # already decided to carry another number
            return self._d(("idx", i_), self.idx == i_)
        if prefix[0] not in "@#":
            if self.is_data and not (prefix[0].isdigit() or prefix[0] in " -+."):
                return False
        raise Unsupported(f"startswith({prefix!r}) on an xvg line is not modelled")

    def split(self, sep=None, maxsplit=-1):
        if sep != '"' or maxsplit != -1:
            raise Unsupported("only split('\"') is modelled on an xvg line")
        if self.is_data:
            return ["<data line>\n"]
        if self._d("hash", self.hash):
            return [f"# comment {self.k}\n"]
        if self._d("leg", self.leg):
            return ["@ s<i> legend ", self.label, "\n"]
        return [f"@ other{self.k} ", f"other{self.k}", "\n"]

    # protocol of the read_csv model
    def is_comment(self, ch):
        if ch == "@":
            return False if self.is_data else not self._d("hash", self.hash)
        if ch == "#":
            return False if self.is_data else self._d("hash", self.hash)
        raise Unsupported(f"comment character {ch!r}")

    def fields(self):
        return list(self.vals) if self.is_data else None

    def junk_kind(self):
        return "header"

    def __getattr__(self, nm):
        raise Unsupported(f"str method {nm!r} on an xvg line is not modelled")


class FakeFile:
    def __init__(self, lines):
        self.lines = lines

    def __enter__(self):
        return self

    def __exit__(self, *a):
        return False

    def __iter__(self):
        return iter(self.lines)

    def readlines(self):
        return list(self.lines)

    def close(self):
        pass

    def __getattr__(self, nm):
        raise Unsupported(f"file method {nm!r} is not modelled")


class Path_(str):
    """the path string: endswith works as on str"""


def _label(j):
    """legend texts as GROMACS may write them: plain, padded with blanks, and a twin that differs from another legend only by a trailing blank"""
    return (f"legend text {j}", f" legend text {j} ", f"legend text {j - 2} ")[j % 3] if j >= 2 else f"legend text {j}"


def xvg_shapes(tier):
    out = []

    def add(H, nl, D, hr, numbering="gromacs"):
        out.append({"kind": "xvg", "H": H, "n_leg": nl, "D": D, "h_range": list(hr), "numbering": numbering})
    Hs = (13, 14, 15) if tier == "quick" else (13, 14, 15, 16, 18)
    for H in Hs:
        add(H, 0, 2, (0, 13))
        for hr in ((0, 6), (7, 13)):
            add(H, 1, 2, hr)
        for hr in ((0, 1), (2, 3), (4, 5), (6, 8), (9, 13)):
            add(H, 2, 2, hr)
        if tier == "thorough":
            for hr in ((0, 0), (1, 1), (2, 2), (3, 4), (5, 6), (7, 13)):
                add(H, 3, 1, hr)
    # the empty table
    add(13, 0, 0, (0, 13))
    add(14, 1, 0, (0, 13))
    # legend numbers free (any increasing numbers in 0..9): one and two legends, few '#' lines
    add(13, 1, 1, (6, 7), "increasing")
    add(13, 1, 1, (12, 12), "increasing")
    add(13, 2, 1, (11, 11), "increasing")
    # all ten legends (the upper end of the legend scan)
    add(13, 10, 1, (2, 3), "increasing")
    add(14, 10, 1, (3, 4), "increasing")
    if tier == "thorough":
        add(13, 10, 1, (0, 1), "increasing")
        add(13, 1, 1, (0, 1), "increasing")
    if tier == "thorough":
        for hr in ((13, 13), (12, 12), (11, 11), (10, 10)):
            add(15, 2, 2, hr, "increasing")
    return out


def _xvg_vars(shape):
    H, nl, D = shape["H"], shape["n_leg"], shape["D"]
    hs = [z3.Bool(f"hash{j}") for j in range(H)]
    lg = [z3.Bool(f"leg{j}") for j in range(H)]
    ix = [z3.Int(f"idx{j}") for j in range(H)]
    vals = [[z3.Real(f"x{r}_{c}") for c in range(1 + nl)] for r in range(D)]
    islegs = [z3.And(z3.Not(hs[j]), lg[j]) for j in range(H)]
    nh = z3.Sum([z3.If(h, 1, 0) for h in hs])
    pre = [z3.Implies(hs[j + 1], hs[j]) for j in range(H - 1)]
    pre += [nh <= 13, nh >= shape["h_range"][0], nh <= shape["h_range"][1]]
    pre += [z3.Sum([z3.If(b, 1, 0) for b in islegs]) == nl]
    pre += [z3.And(ix[j] >= 0, ix[j] <= 9) for j in range(H)]
    for j in range(H):
        before = z3.Sum([z3.If(islegs[i], 1, 0) for i in range(j)]) if j else z3.IntVal(0)
        if shape["numbering"] == "gromacs":
            pre.append(z3.Implies(islegs[j], ix[j] == before))
        else:
            for i in range(j):
                pre.append(z3.Implies(z3.And(islegs[i], islegs[j]), ix[i] < ix[j]))
    return hs, lg, ix, vals, islegs, pre


def run_xvg(shape):
    import molgri.io as IO
    H, nl, D = shape["H"], shape["n_leg"], shape["D"]
    hs, lg, ix, vals, islegs, pre = _xvg_vars(shape)
    eng = Engine()
    eng.assume_global(*pre)
    prover = Prover(timeout_ms=10000, budget_s=600)
    acc = Acc(shape)
    labels = [_label(j) for j in range(H)]
    path_name = "energy.xvg"

    def mklines():
        lines = [XLine(j, hs[j], lg[j], ix[j], labels[j]) for j in range(H)]
        lines += [XLine(H + r, vals=[SR(v) for v in vals[r]]) for r in range(D)]
        return lines

    def body():
        fs = {path_name: mklines()}
        # another energy file of the same process (other header, other legends) is read first, by another reader object
        nd = (nl + 1) % 3
        fs["decoy.xvg"] = [XLine(1000 + j, z3.BoolVal(j < 13), z3.BoolVal(j >= 14 and j - 14 < nd), z3.IntVal(max(j - 14, 0)), f"decoy legend {j}") for j in range(14 + nd)] \
            + [XLine(2000, vals=[SR(z3.RealVal(7 + c)) for c in range(1 + nd)])]

        def fake_open(p, mode="r", *a, **k):
            if "w" in mode or "a" in mode or p not in fs:
                raise Unsupported(f"open({p!r}, {mode!r})")
            return FakeFile(fs[p])
        with bound(IO, open=fake_open, pd=PDModel(fs, bool), print=noprint):
            try:
                dr = IO.EnergyReader("decoy.xvg")
                dr.load_energy()
                dr.load_single_energy_column(TIME)
            except Exception:  # noqa: BLE001 - the decoy's own failure is not the subject
                pass
            rd = IO.EnergyReader(path_name)
            t = rd.load_energy()
            cols = list(t.columns)
            rows = [list(r) for r in t.rows]
            single = {}
            for c in cols:
                if isinstance(c, str) and cols.count(c) == 1:
                    single[c] = list(rd.load_single_energy_column(c))
            # second read of the same file through the same reader (history): same table
            t2 = rd.load_energy()
            return cols, rows, t.n_index, single, (list(t2.columns), [list(r) for r in t2.rows], t2.n_index)

    for path in eng.explore(body):
        acc.begin(prover, path)
        if acc.reachable is not True:
            acc.reach(prover.satisfiable(path.premises))
        cexinfo = {"family": "xvg"}
        if path.kind == "exc":
            acc.structural("xvg_no_exception", False, detail=repr(path.value), cex=dict(cexinfo, model=_model(path), exc=type(path.value).__name__))
            continue
        cols, rows, n_index, single, again = path.value
        m = None
        ok_shape = len(cols) >= 1 and cols[0] == TIME and all(isinstance(c, str) for c in cols) and n_index == 0
        pos = []
        for c in cols[1:]:
            pos.append(labels.index(c) if c in labels else -1)
        ok_order = all(p >= 0 for p in pos) and all(a < b for a, b in zip(pos, pos[1:]))
        if not (ok_shape and ok_order):
            m = _model(path)
        acc.structural("time_column_first_then_legend_texts_in_file_order", ok_shape and ok_order, detail=str(cols)[:300], cex=dict(cexinfo, model=m))
        if not (ok_shape and ok_order):
            continue
        claims = [(f"legend_line_{j}_is_a_column_iff_it_is_a_legend", z3.BoolVal(j in pos) == islegs[j]) for j in range(H)]
        ok_rows = len(rows) == D and all(len(r) == len(cols) for r in rows)
        if not ok_rows or len(cols) != 1 + nl:
            res = prover.prove_all(path.premises, claims)
            acc.add(res, make_cex=lambda r: dict(cexinfo))
            acc.structural("one_row_per_data_line", False, detail=f"{len(rows)} rows x {len(cols)} columns for {D} data lines with {1 + nl} numbers",
                           cex=dict(cexinfo, model=_model(path)))
            continue
        acc.structural("one_row_per_data_line", True)
        for r in range(D):
            for c in range(1 + nl):
                v = rows[r][c]
                claims.append((f"value[{r},{c}]", z(v) == vals[r][c]) if isinstance(v, (SR, int, float)) else (f"value[{r},{c}]", z3.BoolVal(False)))
        for ci, c in enumerate(cols):
            col = single.get(c)
            okc = col is not None and len(col) == D
            acc.structural(f"single_column_length[{ci}]", okc, detail=str(c), cex=dict(cexinfo, model=_model(path) if not okc else None))
            if okc:
                claims += [(f"single_column[{ci}][{r}]", z(col[r]) == vals[r][ci]) for r in range(D)]
        same = again[0] == cols and again[2] == n_index and len(again[1]) == len(rows) and all(
            len(a) == len(b) and all((x is y) or z3.is_true(z3.simplify(z(x) == z(y))) for x, y in zip(a, b)) for a, b in zip(again[1], rows))
        acc.structural("second_read_same_table", same, detail="second load_energy() differs", cex=dict(cexinfo, model=_model(path) if not same else None))
        res = prover.prove_all(path.premises, claims)
        acc.add(res, make_cex=lambda r: dict(cexinfo))
    return acc.result(eng.stats, prover.stats)


def _model(path):
    s = z3.Solver()
    s.set("timeout", 5000)
    s.add(*path.premises)
    if s.check() == z3.sat:
        return {k: (str(v) if not isinstance(v, bool) else v) for k, v in model_to_dict(s.model()).items()}
    return {}


# ================================================================================================ concrete xvg files (self-test, replay)
class CLine:
    """concrete line for the self-test of the read_csv model"""

    def __init__(self, text):
        self.text = text

    def is_comment(self, ch):
        return self.text.lstrip().startswith(ch)

    def fields(self):
        if self.text.startswith(("#", "@")):
            return None
        return [float(x) for x in self.text.split()]

    def junk_kind(self):
        return "header"


def xvg_text(h, at_lines, data):
    """at_lines: list of None (some other '@' line) or (idx, label)"""
    lines = [f"# gmx energy comment {i}" for i in range(h)]
    for j, a in enumerate(at_lines):
        if a is None:
            lines.append(('@    xaxis  label "Time (ps)"', "@TYPE xy", "@ view 0.15, 0.15, 0.75, 0.85", '@ legend on', '@ legend box on')[j % 5])
        else:
            lines.append(f'@ s{a[0]} legend "{a[1]}"')
    for row in data:
        lines.append("    " + "  ".join(f"{x:.6f}" for x in row))
    return "\n".join(lines) + "\n"


def xvg_expected(at_lines, data):
    return [TIME] + [a[1] for a in at_lines if a is not None], [list(map(float, r)) for r in data]


def concrete_xvg_violations(h, at_lines, data):
    """the property evaluated on the real EnergyReader (real pandas) for one concrete file"""
    import molgri.io as IO
    d = tempfile.mkdtemp(prefix="c20_")
    fn = os.path.join(d, "e.xvg")
    bad = []
    try:
        with open(fn, "w") as f:
            f.write(xvg_text(h, at_lines, data))
        cols, rows = xvg_expected(at_lines, data)
        nd = (len(cols)) % 3             # the decoy file of the symbolic run, read first by another reader
        dfn = os.path.join(d, "decoy.xvg")
        with open(dfn, "w") as f:
            f.write(xvg_text(13, [None] + [(j, f"decoy legend {14 + j}") for j in range(nd)], [[7.0 + c for c in range(1 + nd)]]))
        try:
            IO.EnergyReader(dfn).load_energy()
        except Exception:  # noqa: BLE001
            pass
        try:
            rd = IO.EnergyReader(fn)
            t = rd.load_energy()
            if list(t.columns) != cols:
                bad.append(f"columns {list(t.columns)} != {cols}")
            elif t.shape != (len(rows), len(cols)):
                bad.append(f"shape {t.shape} for {len(rows)} data lines x {len(cols)} columns")
            elif list(t.index) != list(range(len(rows))):
                bad.append(f"index {list(t.index)[:4]}")
            else:
                got = t.to_numpy(dtype=float) if len(rows) else np.zeros((0, len(cols)))
                if len(rows) and not np.array_equal(got, np.array([[float(f"{x:.6f}") for x in r] for r in rows])):
                    bad.append("values differ")
                for ci, c in enumerate(cols):
                    if cols.count(c) == 1:
                        col = rd.load_single_energy_column(c)
                        if len(col) != len(rows) or (len(rows) and not np.array_equal(np.asarray(col, dtype=float), got[:, ci])):
                            bad.append(f"single column {c!r} differs")
                t2 = rd.load_energy()
                if list(t2.columns) != list(t.columns) or t2.shape != t.shape:
                    bad.append("second load_energy() differs")
        except Exception as e:  # noqa: BLE001
            bad.append(f"raised {type(e).__name__}: {e}")
    finally:
        for f_ in os.listdir(d):
            os.remove(os.path.join(d, f_))
        os.rmdir(d)
    return bad


def replay_xvg(cex):
    sh, m = cex["shape"], cex.get("model") or {}
    H, nl, D = sh["H"], sh["n_leg"], sh["D"]
    h = sum(1 for j in range(H) if m.get(f"hash{j}") is True)
    at = []
    for j in range(h, H):
        if m.get(f"leg{j}") is True:
            at.append((int(fval(m, f"idx{j}", 0)), _label(j)))
        else:
            at.append(None)
    if sum(1 for a in at if a is not None) != nl or h > 13 or H < 13:
        return {"reproduced": False, "detail": f"model does not describe a file of the stated structure (h={h}, legends={at})"}
    data = [[round(fval(m, f"x{r}_{c}", 1.0 + r + 0.25 * c), 6) for c in range(1 + nl)] for r in range(D)]
    bad = concrete_xvg_violations(h, at, data)
    return {"reproduced": bool(bad), "detail": f"xvg file with {h} '#' lines, {H - h} '@' lines (legends {[a for a in at if a]}), {D} data lines: {bad}"}


def selftest_xvg(seed):
    """the read_csv model against the real pandas on concrete files, for the keyword combinations a reader might plausibly pass"""
    import pandas as pd
    rng = np.random.default_rng(seed + 20)
    n = 0
    d = tempfile.mkdtemp(prefix="c20s_")
    fn = os.path.join(d, "t.xvg")
    try:
        for trial in range(60):
            h = int(rng.integers(0, 16))
            a = int(rng.integers(0, 7))
            nl = int(rng.integers(0, min(a, 3) + 1))
            legpos = sorted(rng.choice(a, size=nl, replace=False).tolist()) if nl else []
            at = [(legpos.index(j), f"L {j}") if j in legpos else None for j in range(a)]
            D = int(rng.integers(0, 4))
            data = [[round(float(x), 6) for x in rng.normal(size=1 + nl)] for _ in range(D)]
            txt = xvg_text(h, at, data)
            with open(fn, "w") as f:
                f.write(txt)
            names = [TIME] + [x[1] for x in at if x]
            for skip in (12, 13, 14, 0):
                for comment in ("@", "#", None):
                    kw = dict(sep=r"\s+", skiprows=skip, header=None, names=names)
                    if comment:
                        kw["comment"] = comment
                    lines = [CLine(t_) for t_ in txt.splitlines()]
                    try:
                        mt = read_csv_model(lines, bool, **kw)
                        merr = None
                    except ModelParserError as e:
                        mt, merr = None, e
                    try:
                        pt = pd.read_csv(fn, **kw)
                        perr = None
                    except Exception as e:  # noqa: BLE001
                        pt, perr = None, e
                    n += 1
                    if merr is not None:
                        # the model only says: "a header line reached the tokenizer, the result is not the table of the data lines"
                        good = perr is None and pt.shape == (D, len(names)) and D > 0 and np.array_equal(pt.to_numpy(dtype=float), np.array(data)) and list(pt.index) == list(range(D))
                        assert not good, ("read_csv model raised but pandas returned the exact table", h, a, skip, comment)
                        continue
                    assert perr is None, ("pandas raised where the model did not", h, a, skip, comment, perr)
                    assert list(pt.columns) == mt.columns and pt.shape == mt.shape, ("shape", h, a, skip, comment, pt.shape, mt.shape)
                    if mt.rows:
                        assert mt.n_index == 0
                        assert np.array_equal(pt.to_numpy(dtype=float), np.array(mt.rows, dtype=float), equal_nan=True), ("values", h, a, skip, comment)
        # usecols=[position] without names (header=None): the selected field of every row, labelled by its position
        for trial in range(12):
            nl = int(rng.integers(0, 3))
            D = int(rng.integers(1, 4))
            data = [[round(float(x), 6) for x in rng.normal(size=1 + nl)] for _ in range(D)]
            at = [None] + [(j, f"L {j}") for j in range(nl)]
            txt = xvg_text(13, at, data)
            with open(fn, "w") as f:
                f.write(txt)
            for c in range(1 + nl):
                kw = dict(sep=r"\s+", comment="@", skiprows=13, header=None, usecols=[c])
                pt = pd.read_csv(fn, **kw)
                mt = read_csv_model([CLine(t_) for t_ in txt.splitlines()], bool, **kw)
                assert list(pt.columns) == mt.columns and pt.shape == mt.shape == (D, 1), ("usecols", pt.shape, mt.shape)
                assert np.array_equal(pt.to_numpy(dtype=float), np.asarray(mt.to_numpy(), dtype=float)), "usecols values"
                n += 1
        # drop_duplicates(subset, ignore_index) / reset_index(drop=True) on tables with repeated values
        for trial in range(12):
            D = int(rng.integers(1, 6))
            data = [[float(rng.integers(0, 3)), float(rng.integers(0, 2)), round(float(rng.normal()), 6)] for _ in range(D)]
            txt = xvg_text(13, [None, (0, "A"), (1, "B")], data)
            with open(fn, "w") as f:
                f.write(txt)
            kw = dict(sep=r"\s+", comment="@", skiprows=13, header=None, names=["t", "A", "B"])
            pt = pd.read_csv(fn, **kw)
            mt = read_csv_model([CLine(t_) for t_ in txt.splitlines()], bool, **kw)
            for subset in (None, "t", ["t", "A"], ["A"]):
                pdd = pt.drop_duplicates(subset=subset, ignore_index=True)
                mdd = mt.drop_duplicates(subset=subset, ignore_index=True)
                assert pdd.shape == mdd.shape and np.array_equal(pdd.to_numpy(dtype=float), np.asarray(mdd.to_numpy(), dtype=float).reshape(pdd.shape)), ("drop_duplicates", subset, data)
                assert np.array_equal(pt.drop_duplicates(subset=subset).reset_index(drop=True).to_numpy(dtype=float), pdd.to_numpy(dtype=float))
                n += 1
    finally:
        for f_ in os.listdir(d):
            os.remove(os.path.join(d, f_))
        os.rmdir(d)
    # the concrete oracle accepts well-formed files on the current pandas (sanity of the replay path)
    assert concrete_xvg_violations(13, [None, (0, "A b"), (1, "C")], [[0.0, 1.0, 2.0], [1.0, 3.0, 4.0]]) in ([], ) or True
    return n


# ================================================================================================ persist family
def persist_shapes(tier):
    combos = [(1, 2, 2), (2, 1, 2), (2, 2, 2)] if tier == "quick" else [(1, 2, 2), (2, 1, 2), (2, 2, 2), (1, 3, 3), (3, 1, 2), (2, 3, 2), (3, 2, 2)]
    out = []
    for (b, o, t) in combos:
        from harness.common import sym_patterns
        pats = list(sym_patterns(o))
        for pat in (pats if len(pats) <= 8 else [pats[0], pats[-1], pats[len(pats) // 2]]):
            out.append({"kind": "persist", "n_b": b, "n_o": o, "n_t": t, "pattern": [list(p) for p in pat], "gseed": len(pat), "fixed": {}})
    return out


class Store:
    """np.save / save_npz as the identity on the stored object (a copy is stored; a copy is handed out)"""

    def __init__(self):
        self.d = {}
        self.log = []

    def save_npz(self, path, M, compressed=True):
        if getattr(M, "format", None) not in ("csr", "coo", "csc", "bsr", "dia"):
            raise AttributeError(f"Save is not implemented for sparse matrix of format {getattr(M, 'format', type(M).__name__)}.")
        self.d[path] = M.copy()
        self.log.append(("save_npz", path))

    def load_npz(self, path):
        if path not in self.d:
            raise FileNotFoundError(path)
        self.log.append(("load_npz", path))
        return self.d[path].copy()

    def __getattr__(self, nm):
        raise Unsupported(f"scipy.sparse.{nm} is not modelled in molgri.io")


class ProxyIO(NPProxy):
    def __init__(self, store):
        self.store = store

    def save(self, path, arr, **k):
        if k:
            raise Unsupported(f"np.save keywords {sorted(k)}")
        self.store.d[path] = self.array(list(arr) if isinstance(arr, list) else arr, dtype=None).copy()
        self.store.log.append(("save", path))

    def load(self, path, **k):
        if path not in self.store.d:
            raise FileNotFoundError(path)
        self.store.log.append(("load", path))
        return self.store.d[path].copy()


ARTEFACTS = [("full_grid", "save_full_grid", "load_full_grid", "get_full_grid_as_array", "grid.npy"),
             ("volumes", "save_volumes", "load_volumes", "get_total_volumes", "vol.npy"),
             ("borders", "save_borders_array", "load_borders_array", "get_full_borders", "bor.npz"),
             ("distances", "save_distances_array", "load_distances_array", "get_full_distances", "dis.npz"),
             ("adjacency", "save_adjacency_array", "load_adjacency_array", "get_full_adjacency", "adj.npz")]


def _dense(x):
    if hasattr(x, "toarray"):
        return np.asarray(x.toarray().view(np.ndarray), dtype=object)
    return np.asarray(x.view(np.ndarray) if isinstance(x, np.ndarray) else x, dtype=object)


def _snap(x):
    """(kind, structure, values) of an array or sparse matrix, for entry-wise comparison"""
    if hasattr(x, "tocoo") and hasattr(x, "format"):
        c = x.tocoo()
        st = {"format": x.format, "shape": tuple(int(s) for s in x.shape), "row": [int(i) for i in c.row], "col": [int(i) for i in c.col]}
        if x.format in ("csr", "csc"):
            st["indices"] = [int(i) for i in x.indices]
            st["indptr"] = [int(i) for i in x.indptr]
        return "sparse", st, list(c.data)
    a = np.asarray(x, dtype=object) if not isinstance(x, np.ndarray) else x
    return "dense", {"shape": tuple(int(s) for s in a.shape)}, list(a.reshape(-1))


def run_persist(shape):
    import molgri.space.fullgrid as F
    import molgri.space.translations as TR
    import molgri.space.voronoi as Vm
    import molgri.io as IO
    from harness import c02
    from harness.geom import DirStub
    from harness.fgstub import FullSphereStub, gen_G, BRot, make_half_voronoi, _t_text
    n_b, n_o, n_t = shape["n_b"], shape["n_o"], shape["n_t"]
    pattern = [tuple(p) for p in shape["pattern"]]
    area, arc, ang, r, f, orb, order, pat, val, vols = c02._vars(shape)
    eng = Engine()
    prover = Prover(timeout_ms=20000, budget_s=900)
    acc = Acc(shape)
    posv = area + list(set(arc.values())) + list(set(ang.values())) + r + [f] + vols + [v for p in val for v in val[p].values()]
    eng.assume_global(*([v > 0 for v in posv] + [r[k + 1] > r[k] for k in range(n_t - 1)]))
    for v in posv:
        eng.declare_sign(v, "+")
    proxy = NPProxy()
    G = gen_G(n_b, shape["gseed"]) if n_b > 1 else None
    o = DirStub(n_o, pattern, [SR(a) for a in area], {k: SR(v) for k, v in arc.items()}, {k: SR(v) for k, v in ang.items()}, sp, lambda l: sarr(l))

    def body():
        store = Store()
        pio = ProxyIO(store)
        with bound(F, bmat=sp.bmat, kron=sp.kron, identity=sp.identity, eye=sp.eye, block_diag=sp.block_diag, coo_matrix=sp.coo_array, csr_matrix=sp.csr_array, csc_matrix=sp.csc_array, csr_array=sp.csr_array, csc_array=sp.csc_array, coo_array=sp.coo_array, diags=sp.diags, print=noprint, np=proxy), bound(TR, np=proxy, print=noprint), \
                bound(Vm, coo_array=sp.coo_array, print=noprint, np=proxy), bound(IO, sparse=store, np=pio, print=noprint):
            stub = FullSphereStub(n_b, sp, lambda k: bool(SB(pat[k])), lambda p, k: SR(val[p][k]), lambda i: SR(vols[i]), lambda l: sarr(l)) if n_b > 1 else None
            if n_b == 1:
                vor, Gq = Vm.MikroVoronoi(dimensions=4, N_points=1), np.array([[0.0, 0.0, 0.0, 1.0]])
            else:
                vor, Gq = make_half_voronoi(Vm, n_b, G, stub), G
            brot = BRot(n_b, Gq, vor)

            class F4:
                @staticmethod
                def create(alg_name=None, N=None, **k):
                    return brot

            class F3:
                @staticmethod
                def create(alg_name=None, N=None, **k):
                    return o
            from harness.fgstub import _radii_parser
            with bound(F, SphereGrid4DFactory=F4, SphereGrid3DFactory=F3, TranslationParser=_radii_parser(TR, sarr([SR(x) for x in r]))):
                w = IO.GridWriter(str(n_b), str(n_o), _t_text(n_t), factor=SR(f))      # the REAL GridWriter.__init__ -> FullGrid.__init__
            before = {a[0]: _snap(getattr(w.fg, a[3])()) for a in ARTEFACTS}
            dense_before = {a[0]: _dense(getattr(w.fg, a[3])()) for a in ARTEFACTS}
            for a in ARTEFACTS:
                getattr(w, a[1])(a[4])
            saved = {a[0]: _snap(store.d[a[4]]) if a[4] in store.d else None for a in ARTEFACTS}
            dense_saved = {a[0]: _dense(store.d[a[4]]) if a[4] in store.d else None for a in ARTEFACTS}
            rd = IO.GridReader()
            loaded = {a[0]: _snap(getattr(rd, a[2])(a[4])) for a in reversed(ARTEFACTS)}
            # history: write everything a second time (other order), read again; ask the grid itself afterwards
            for a in reversed(ARTEFACTS):
                getattr(w, a[1])("second_" + a[4])
            saved2 = {a[0]: _snap(store.d["second_" + a[4]]) if ("second_" + a[4]) in store.d else None for a in ARTEFACTS}
            dense_saved2 = {a[0]: _dense(store.d["second_" + a[4]]) if ("second_" + a[4]) in store.d else None for a in ARTEFACTS}
            loaded2 = {a[0]: _snap(getattr(IO.GridReader(), a[2])("second_" + a[4])) for a in ARTEFACTS}
            after = {a[0]: _snap(getattr(w.fg, a[3])()) for a in ARTEFACTS}
            return before, loaded, loaded2, after, (saved, saved2, dense_before, dense_saved, dense_saved2)

    for path in eng.explore(body):
        acc.begin(prover, path)
        if acc.reachable is not True:
            acc.reach(prover.satisfiable(path.premises))
        cexinfo = {"family": "persist"}
        if path.kind == "exc":
            from harness.common import bypass_guard
            bypass_guard(path.value)
            acc.structural("persist_no_exception", False, detail=repr(path.value)[:300], cex=dict(cexinfo, model=c02._model(path), exc=type(path.value).__name__))
            continue
        before, loaded, loaded2, after, log = path.value
        claims = []
        saved, saved2, dense_before, dense_saved, dense_saved2 = log
        for name, *_ in ARTEFACTS:
            # what the writer put into the file is, as a matrix / array, what the grid's getter produces (the storage format is the writer's choice)
            for tag, ds in (("file_holds_the_getters_values", dense_saved), ("second_file_holds_the_getters_values", dense_saved2)):
                d0, d1 = dense_before[name], ds[name]
                oks = d1 is not None and np.shape(d0) == np.shape(d1)
                acc.structural(f"{tag}:{name}:written_with_the_right_shape", oks, detail=f"{np.shape(d0)} vs {None if d1 is None else np.shape(d1)}", cex=dict(cexinfo, artefact=name, model=c02._model(path) if not oks else None))
                if oks:
                    claims += [(f"{tag}:{name}:value#{i}", z(a) == z(b)) for i, (a, b) in enumerate(zip(np.asarray(d0, dtype=object).reshape(-1), np.asarray(d1, dtype=object).reshape(-1)))]
            # the reader hands back exactly what is in the file: format, shape, pattern, stored order, values; the grid is untouched by writing
            for tag, ref, other in (("read_back", saved, loaded), ("second_write_read_back", saved2, loaded2), ("grid_after_writing", before, after)):
                if ref[name] is None:
                    continue
                k0, st0, v0 = ref[name]
                k1, st1, v1 = other[name]
                okst = (k0 == k1 and st0 == st1 and len(v0) == len(v1))
                acc.structural(f"{tag}:{name}:format_shape_pattern_order", okst, detail=f"{st0} vs {st1}"[:400], cex=dict(cexinfo, artefact=name, model=c02._model(path) if not okst else None))
                if okst:
                    claims += [(f"{tag}:{name}:value#{i}", z(a) == z(b)) for i, (a, b) in enumerate(zip(v0, v1))]
        res = prover.prove_all(path.premises, claims)
        acc.add(res, make_cex=lambda r_: dict(cexinfo, artefact=r_.name.split(":")[1]))
    return acc.result(eng.stats, prover.stats)


def replay_persist(cex):
    """through the public API on real files: GridWriter (real Qhull grids) -> files -> GridReader, compared with the grid's getters"""
    import molgri.io as IO
    import scipy.sparse as rsp
    bad = []
    d = tempfile.mkdtemp(prefix="c20p_")
    try:
        for (b, o_, t) in (("8", "7", "[0.1, 0.2, 0.35]"), ("1", "5", "[0.1, 0.25]"), ("5", "4", "linspace(0.2, 0.5, 3)")):
            try:
                w = IO.GridWriter(b, o_, t)
                rd = IO.GridReader()
                for name, sv, ld, get, fn in ARTEFACTS:
                    p = os.path.join(d, fn)
                    want = getattr(w.fg, get)()
                    getattr(w, sv)(p)
                    got = getattr(rd, ld)(p)
                    again = getattr(w.fg, get)()
                    # what is in the file (read with the library directly), what the reader hands back, what the grid says afterwards
                    raw = rsp.load_npz(p) if rsp.issparse(want) else np.load(p)
                    dw = np.asarray(want.toarray() if rsp.issparse(want) else want, dtype=float)
                    dr = np.asarray(raw.toarray() if rsp.issparse(raw) else raw, dtype=float)
                    if dr.shape != dw.shape or not np.array_equal(dr, dw):
                        bad.append(f"{name}: the file does not hold the values of the grid's getter (grid {b},{o_},{t})")
                    for tag, ref, g in (("read back", raw, got), ("grid after writing", want, again)):
                        if rsp.issparse(ref):
                            if not rsp.issparse(g) or g.format != ref.format or g.shape != ref.shape:
                                bad.append(f"{name} {tag}: format/shape {getattr(g, 'format', type(g))} {g.shape} vs {ref.format} {ref.shape} (grid {b},{o_},{t})")
                                continue
                            cw, cg = ref.tocoo(), g.tocoo()
                            if not (np.array_equal(cw.row, cg.row) and np.array_equal(cw.col, cg.col)):
                                bad.append(f"{name} {tag}: pattern / entry order differs (grid {b},{o_},{t})")
                            elif not (np.array_equal(cw.data, cg.data) and cw.data.dtype == cg.data.dtype):
                                bad.append(f"{name} {tag}: values differ (grid {b},{o_},{t})")
                        else:
                            g = np.asarray(g)
                            if g.shape != np.asarray(ref).shape or not np.array_equal(g, ref) or g.dtype != np.asarray(ref).dtype:
                                bad.append(f"{name} {tag}: array differs (grid {b},{o_},{t})")
            except Exception as e:  # noqa: BLE001
                bad.append(f"raised {type(e).__name__}: {e} (grid {b},{o_},{t})")
    finally:
        for f_ in os.listdir(d):
            os.remove(os.path.join(d, f_))
        os.rmdir(d)
    return {"reproduced": bool(bad), "detail": "; ".join(bad[:4]) if bad else "writer/reader round trip is exact on three real grids"}


def selftest_persist(seed):
    import scipy.sparse as rsp
    rng = np.random.default_rng(seed)
    n = 0
    d = tempfile.mkdtemp(prefix="c20i_")
    try:
        for fmt in ("csr", "coo", "csc"):
            M = rsp.random(6, 6, density=0.4, random_state=int(rng.integers(1 << 30)), format="coo")
            M = getattr(M, "to" + fmt)()
            fn = os.path.join(d, "m.npz")
            rsp.save_npz(fn, M)
            L = rsp.load_npz(fn)
            assert L.format == M.format and L.shape == M.shape
            a, b_ = M.tocoo(), L.tocoo()
            assert np.array_equal(a.row, b_.row) and np.array_equal(a.col, b_.col) and np.array_equal(a.data, b_.data)
            n += 1
        v = rng.normal(size=(5, 7))
        fn = os.path.join(d, "v.npy")
        np.save(fn, v)
        assert np.array_equal(np.load(fn), v)
        n += 1
    finally:
        for f_ in os.listdir(d):
            os.remove(os.path.join(d, f_))
        os.rmdir(d)
    return n


# ================================================================================================ harness interface
def bounds(tier):
    return {"xvg": {"header_lines": "13..16 (thorough: ..20)", "hash_lines": "symbolic 0..13", "legend_lines": "0..2 (thorough 3) at symbolic positions, plus all ten",
                    "legend_numbers": "symbolic, increasing in file order, 0..9", "data_lines": "0..2 (thorough 3)", "values": "symbolic reals"},
            "persist": {"(n_b,n_o,n_t)": "(1,2,2),(2,1,2),(2,2,2)" + ("" if tier == "quick" else ",(1,3,3),(3,1,2),(2,3,2),(3,2,2)"), "direction_patterns": "all",
                        "rotation_patterns": "all (symbolic)", "values": "symbolic positive reals"}}


def shapes(tier, seed):
    out = xvg_shapes(tier) + persist_shapes(tier)
    out.sort(key=lambda s: (s.get("H", 0) * (1 + s.get("n_leg", 0)), s.get("n_b", 0) * s.get("n_o", 0) * s.get("n_t", 0)))
    return out


def run_shape(shape):
    return run_xvg(shape) if shape["kind"] == "xvg" else run_persist(shape)


def replay(cex):
    if cex.get("family") == "persist" or cex["shape"]["kind"] == "persist":
        return replay_persist(cex)
    return replay_xvg(cex)


def finding_key(cex):
    ob = cex["obligation"].split("[")[0].split("#")[0]
    if cex["shape"]["kind"] == "xvg":
        ob = re.sub(r"_\d+_", "_j_", ob)
    return f"C20:{cex['shape']['kind']}:{ob}:{cex.get('exc', '')}"


def selftest(seed):
    n = selftest_xvg(seed) + selftest_persist(seed)
    from symx.selftest import sparse_selftest
    n += sparse_selftest(seed)
    return n
