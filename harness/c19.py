"""C19 -- every valid grid specification yields all geometry or a deliberate ValueError.

The REAL constructors run (`FullGrid.__init__`, name parsers, translation parser, the polytope / random generators,
`SphereGridNDim.gen_grid` with its size threshold choosing the cell model, the real `MikroVoronoi`); only the Qhull-backed
Voronoi classes are replaced by contract stubs with symbolic positive values (radii are the parsed concrete numbers).  Sizes are enumerated (numpy shapes must be concrete) -- that enumeration is the stated bound.
A counterexample is replayed through the public API on the unmodified libraries (real Qhull).
"""
import contextlib
import itertools

import numpy as np
import z3

from symx.core import Engine, SR, SB, noprint
from symx.arr import sarr
from symx import sparse as sp
from symx.npproxy import NPProxy
from symx.prove import Prover
from symx.runner import Acc
from symx.selftest import sparse_selftest
from harness.common import bound, z
from harness.fgstub import FullSphereStub, make_half_voronoi

PROPERTY = "C19"
FUNCTIONS = ["molgri.space.fullgrid.FullGrid.__init__", "PositionGrid.__init__", "molgri.naming.GridNameParser", "TranslationParser.__init__",
             "molgri.space.rotobj.SphereGrid3DFactory/SphereGrid4DFactory.create", "SphereGridNDim.gen_grid (size threshold)", "SphereGrid4Dim._gen_grid",
             "the concrete generators (polytopes / random) as a concrete prefix", "molgri.space.voronoi.MikroVoronoi (all methods)",
             "FullGrid._get_N_N", "FullGrid.get_total_volumes", "FullGrid.get_full_grid_as_array", "PositionGrid._get_N_N_position_array",
             "PositionGrid.get_all_position_volumes", "HalfRotobjVoronoi._calculate_N_N_array / get_voronoi_volumes"]
STUBS = ["default mode: rotobj.RotobjVoronoi (3D, N>=4) -> contract stub: positive areas, symmetric positive arcs/angles on a ring+chord pattern",
         "rotobj.HalfRotobjVoronoi (4D, N>=4) -> the real class around a full-sphere contract stub (complete antipodally invariant pattern)",
         "Cartesian mode: nothing of the position part is stubbed -- it is concrete, so the real SphericalVoronoi / Voronoi / ConvexHull run"]
ASSUMPTIONS = ["sizes enumerated; stub geometry values symbolic, radii concrete (symbolic radii: C02, C05)", "float modelled by the reals"]
OUTSIDE = ["sizes beyond the box", "the geometry library's behaviour itself"]
GETTERS = ("get_full_grid_as_array", "get_total_volumes", "get_full_adjacency", "get_full_borders", "get_full_distances")
# position-grid getters reachable through FullGrid.__getattr__ forwarding (shape n_o*n_t)
POSGETTERS = ("get_adjacency_of_position_grid", "get_borders_of_position_grid", "get_distances_of_position_grid", "get_all_position_volumes")
# call histories on ONE object ("any order" is part of "requesting its array, volumes, adjacency, borders and distances"): every getter of
# the property must answer with the right shape whatever was asked before on the same object
HISTORIES = {"listed_twice": GETTERS + GETTERS,
             "reversed_then_listed": tuple(reversed(GETTERS)) + GETTERS,
             "position_getters_first": POSGETTERS + GETTERS,
             "borders_first": ("get_full_borders", "get_full_adjacency", "get_total_volumes", "get_full_distances", "get_full_grid_as_array"),
             "distances_first": ("get_full_distances", "get_full_adjacency", "get_full_borders", "get_total_volumes")}


def bounds(tier):
    box = [1, 2, 3, 4, 5] if tier == "quick" else [1, 2, 3, 4, 5, 6, 7]
    return {"n_b": box, "n_o": box, "n_t": [1, 2, 3, 4] if tier == "quick" else [1, 2, 3, 4, 5], "modes": ["spherical shells", "Cartesian"], "getters": list(GETTERS),
            "algorithms": "default (ico / cube4D / zero) in quick; + randomS, cube3D, randomQ in thorough"}


def shapes(tier, seed):
    box = [1, 2, 3, 4, 5] if tier == "quick" else [1, 2, 3, 4, 5, 6, 7]
    tbox = [1, 2, 3, 4] if tier == "quick" else [1, 2, 3, 4, 5]
    out = []
    for nb, no, nt in itertools.product(box, box, tbox):
        for cart in (False, True):
            out.append({"n_b": nb, "n_o": no, "n_t": nt, "cartesian": cart, "alg_b": "", "alg_o": ""})
    # one-point grids spelled by name instead of by number (what the command line tools pass for "only origin"): parser-accepted, so covered
    for bn, on in (("zero", "zero"), ("zero4D", "zero3D"), ("zero", "3"), ("2", "zero3D"), ("zero_1", "1_zero")):
        for nt in (1, 2):
            for cart in (False, True):
                out.append({"n_b": 1 if "zero" in bn else int(bn), "n_o": 1 if "zero" in on else int(on), "n_t": nt, "cartesian": cart, "alg_b": "", "alg_o": "", "names": [bn, on]})
    if tier == "thorough":
        for nb, no in itertools.product(box, box):
            for ab, ao in (("randomQ_", "randomS_"), ("cube4D_", "cube3D_")):
                out.append({"n_b": nb, "n_o": no, "n_t": 2, "cartesian": False, "alg_b": ab, "alg_o": ao})
    out.sort(key=lambda s: s["n_b"] * s["n_o"] * s["n_t"])
    return out


@contextlib.contextmanager
def bound_attr(obj, **names):
    old = {k: obj.__dict__.get(k) for k in names}
    for k, v in names.items():
        setattr(obj, k, v)
    try:
        yield
    finally:
        for k, v in old.items():
            if v is None:
                delattr(obj, k)
            else:
                setattr(obj, k, v)


def _t_string(n_t):
    return "[" + ", ".join(str(round(0.1 * (k + 1) + 0.03 * k * k, 3)) for k in range(n_t)) + "]"


def run_shape(shape):
    import scipy.spatial
    import molgri.space.fullgrid as F
    import molgri.space.rotobj as RO
    import molgri.space.translations as TR
    import molgri.space.voronoi as Vm
    n_b, n_o, n_t, cart = shape["n_b"], shape["n_o"], shape["n_t"], shape["cartesian"]
    eng = Engine()
    prover = Prover(timeout_ms=10000, budget_s=300)
    acc = Acc(shape)
    proxy = NPProxy()
    R = z3.Real
    r = [R(f"r{k}") for k in range(n_t)]
    pool = {}

    def P(name):
        """a named symbolic positive quantity"""
        if name not in pool:
            pool[name] = R(name)
            eng.declare_sign(pool[name], "+")
        return pool[name]
    for x in r:
        eng.declare_sign(x, "+")
    eng.assume_global(*[x > 0 for x in r], *[r[k + 1] > r[k] for k in range(n_t - 1)])

    class Vor3Stub:
        """contract stub of RotobjVoronoi for a direction grid with N >= 4 points"""

        def __init__(self, my_array, using_detailed_grid=True):
            self.n = len(my_array)
            n = self.n
            pairs = {tuple(sorted((i, (i + 1) % n))) for i in range(n)} | {(0, 2)}
            self.keys = sorted(pairs | {(j, i) for i, j in pairs})

        def _m(self, f):
            return sp.coo_array((sarr([f(i, j) for i, j in self.keys]), ([k[0] for k in self.keys], [k[1] for k in self.keys])), shape=(self.n, self.n))

        def get_voronoi_volumes(self, **k):
            return sarr([SR(P(f"a{i}")) for i in range(self.n)])

        def get_voronoi_adjacency(self, **k):
            return self._m(lambda i, j: True)

        def get_cell_borders(self, **k):
            return self._m(lambda i, j: SR(P("arc%d_%d" % tuple(sorted((i, j))))))

        def get_center_distances(self, **k):
            return self._m(lambda i, j: SR(P("ang%d_%d" % tuple(sorted((i, j))))))

        def _calculate_N_N_array(self, sel_property="adjacency", **k):
            return {"adjacency": self.get_voronoi_adjacency, "border_len": self.get_cell_borders, "center_distances": self.get_center_distances}[sel_property]()

    def half_factory(my_array, using_detailed_grid=True):
        N = len(my_array) // 2
        stub = FullSphereStub(N, sp, lambda k: True, lambda p, k: SR(P(f"{p[0]}_%d_%d" % k)), lambda i: SR(P(f"vol{i}")), lambda l: sarr(l))
        return make_half_voronoi(Vm, N, np.asarray(my_array[:N], dtype=float), stub)

    class QhullStub:
        def __init__(self, points, *a, **k):
            if n_o < 3:
                raise scipy.spatial.QhullError("QH6214 qhull input error: not enough points / flat simplex (stub contract: no 3-D diagram for n_o<3)")
            self.points = points

    def cart_volumes(self):
        return sarr([SR(P(f"cv{i}")) for i in range(len(self.get_position_grid_as_array()))])

    def _cart_matrix(self, tag):
        M = self.get_adjacency_of_position_grid()
        M.data = sarr([SR(P(f"{tag}%d_%d" % tuple(sorted((int(i), int(j)))))) for i, j in zip(M.row, M.col)]) if len(M.row) else M.data
        return M

    outcome = {}

    def body():
        out = {}
        if cart:
            # Cartesian mode: the position part is entirely concrete (parsed radii, generated directions), so the REAL Qhull classes run
            # (SphericalVoronoi for the directions, scipy.spatial.Voronoi / ConvexHull for the cells); only the 4-D rotation cells are stubs
            ctx = (bound(RO, HalfRotobjVoronoi=half_factory, print=noprint),
                   bound(F, bmat=sp.bmat, kron=sp.kron, identity=sp.identity, eye=sp.eye, block_diag=sp.block_diag, coo_matrix=sp.coo_array, csr_matrix=sp.csr_array, csc_matrix=sp.csc_array, csr_array=sp.csr_array, csc_array=sp.csc_array, coo_array=sp.coo_array, diags=sp.diags, print=noprint, np=proxy),
                   bound(TR, np=proxy, print=noprint), bound(Vm, coo_array=sp.coo_array, print=noprint, np=proxy))
        else:
            ctx = (bound(RO, RotobjVoronoi=Vor3Stub, HalfRotobjVoronoi=half_factory, print=noprint),
                   bound(F, bmat=sp.bmat, kron=sp.kron, identity=sp.identity, eye=sp.eye, block_diag=sp.block_diag, coo_matrix=sp.coo_array, csr_matrix=sp.csr_array, csc_matrix=sp.csc_array, csr_array=sp.csr_array, csc_array=sp.csc_array, coo_array=sp.coo_array, diags=sp.diags, print=noprint, np=proxy),
                   bound(TR, np=proxy, print=noprint), bound(Vm, coo_array=sp.coo_array, print=noprint, np=proxy))
        with contextlib.ExitStack() as st:
            for c_ in ctx:
                st.enter_context(c_)
            # another full grid of the same process, of OTHER sizes (and the other position mode), is built and asked for everything first
            try:
                dec = F.FullGrid(f"{shape['alg_b']}{n_b % 5 + 1}", f"{shape['alg_o']}{n_o % 5 + 3}", _t_string(n_t % 4 + 1), position_grid_cartesian=not cart)
                for g in GETTERS + POSGETTERS:
                    try:
                        getattr(dec, g)()
                    except Exception:  # noqa: BLE001 - the decoy's own failures are not the subject
                        pass
            except Exception:  # noqa: BLE001
                pass
            for hname, hist in HISTORIES.items():
                try:
                    bname, oname = shape.get("names") or (f"{shape['alg_b']}{n_b}", f"{shape['alg_o']}{n_o}")
                    fg = F.FullGrid(bname, oname, _t_string(n_t), position_grid_cartesian=cart)
                except Exception as e:  # noqa: BLE001
                    return {"__init__": e}
                # radii stay the concrete parsed numbers here (C02/C05 cover symbolic radii): with symbolic radii the truthiness of
                # arc*(R_k^2-R_{k-1}^2)/2 needs the NRA solver per entry, and `unknown` answers multiply paths at these sizes
                for step, g in enumerate(hist):
                    try:
                        out[f"{g}#{hname}#{step}"] = getattr(fg, g)()
                    except Exception as e:  # noqa: BLE001 - recorded per getter
                        out[f"{g}#{hname}#{step}"] = e
        return out

    n = n_b * n_o * n_t
    for path in eng.explore(body):
        acc.begin(prover, path)
        if acc.reachable is not True:
            acc.reach(prover.satisfiable(path.premises))
        if path.kind == "exc":
            acc.structural("harness", False, detail=repr(path.value) + (path.tb or "")[-600:], cex={"kind": "exception", "exc": type(path.value).__name__, "getter": "?"})
            continue
        res = path.value
        for g, v in res.items():
            cexinfo = {"getter": g}
            g = g.split("#")[0]
            if isinstance(v, Exception):
                allowed = isinstance(v, ValueError) or (cart and n_o < 3 and type(v).__name__ == "QhullError")
                acc.structural(f"no_internal_error:{g}", allowed, detail=f"{type(v).__name__}: {v}", cex=dict(cexinfo, kind="exception", exc=type(v).__name__))
                continue
            ok = _shape_ok(g, v, n, n_o * n_t)
            acc.structural(f"shape:{g}", ok, detail=str(np.shape(v) if not hasattr(v, "shape") else v.shape), cex=cexinfo)
    return acc.result(eng.stats, prover.stats)


# ------------------------------------------------------------------------------------------ replay: public API, real Qhull
def _shape_ok(g, v, n, npos):
    if g == "get_full_grid_as_array":
        return tuple(np.shape(v)) == (n, 7)
    if g == "get_total_volumes":
        return len(v) == n
    if g == "get_all_position_volumes":
        return len(v) == npos
    if g in POSGETTERS:
        return v is not None and tuple(v.shape) == (npos, npos)
    return v is not None and tuple(v.shape) == (n, n)


def replay(cex):
    import contextlib as cl, io
    from molgri.space.fullgrid import FullGrid
    s = cex["shape"]
    g = cex.get("getter")
    n = s["n_b"] * s["n_o"] * s["n_t"]
    if g == "__init__" or not isinstance(g, str) or "#" not in g:
        hist, g0 = (), g
    else:
        g0, hname, step = g.split("#")
        hist = HISTORIES[hname][:int(step)]
    _bn, _on = s.get("names") or (f"{s['alg_b']}{s['n_b']}", f"{s['alg_o']}{s['n_o']}")
    call = f"FullGrid({_bn!r}, {_on!r}, {_t_string(s['n_t'])!r}, position_grid_cartesian={s['cartesian']})" + \
        (f" after {list(hist)} on the same object: " if hist else ".") + f"{g0}()"
    try:
        with cl.redirect_stdout(io.StringIO()):
            try:       # the decoy of the symbolic run
                dec = FullGrid(f"{s['alg_b']}{s['n_b'] % 5 + 1}", f"{s['alg_o']}{s['n_o'] % 5 + 3}", _t_string(s["n_t"] % 4 + 1), position_grid_cartesian=not s["cartesian"])
                for g_ in GETTERS + POSGETTERS:
                    try:
                        getattr(dec, g_)()
                    except Exception:  # noqa: BLE001
                        pass
            except Exception:  # noqa: BLE001
                pass
            bname, oname = s.get("names") or (f"{s['alg_b']}{s['n_b']}", f"{s['alg_o']}{s['n_o']}")
            fg = FullGrid(bname, oname, _t_string(s["n_t"]), position_grid_cartesian=s["cartesian"])
            for h in hist:                 # same history as the symbolic run
                try:
                    getattr(fg, h)()
                except Exception:  # noqa: BLE001
                    pass
            v = getattr(fg, g0)() if g0 in GETTERS + POSGETTERS else None
    except ValueError as e:
        return {"reproduced": False, "detail": f"{call} raised ValueError {e} (allowed)"}
    except Exception as e:  # noqa: BLE001
        allowed = s["cartesian"] and s["n_o"] < 3 and type(e).__name__ == "QhullError"
        return {"reproduced": not allowed, "detail": f"{call} raised {type(e).__name__}: {str(e)[:200]}"}
    ok = _shape_ok(g0, v, n, s["n_o"] * s["n_t"]) if g0 in GETTERS + POSGETTERS else True
    return {"reproduced": not ok, "detail": f"{call} -> shape {np.shape(v) if not hasattr(v, 'shape') else v.shape}"}


def finding_key(cex):
    s = cex["shape"]
    kind = "nb23" if s["n_b"] in (2, 3) else "nb%d" % min(s["n_b"], 4)
    g = str(cex.get('getter'))
    g = "#".join(g.split("#")[:2])
    return f"C19:{g}:{cex.get('exc', 'shape')}:{kind}:nt1={s['n_t'] == 1}:cart={s['cartesian']}"


def selftest(seed):
    return sparse_selftest(seed, rounds=4)
