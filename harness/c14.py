"""C14 -- saved grid geometry gives a rate matrix stationary at Boltzmann x volume (first sentence; spectral part outside).

One symbolic run, end to end above the compiled geometry:
  geometry stubs -> real fold (C04) + real position assembly (C05) -> real FullGrid getters (C02)
  -> real GridWriter.save_* / GridReader.load_* (np.save / save_npz modelled as the identity on the stored object; the
     identity is validated against the real files in the self-test) -> real SQRA.get_rate_matrix with symbolic energies.
Assume/guarantee cut at the SQRA(...) boundary (DESIGN section 2, item 5): the preconditions C01 needs are discharged
on the ACTUAL assembled terms, then the same execution continues on fresh positive variables laid out in the PRODUCED
pattern and storage order.
"""
import itertools
import os
import tempfile

import numpy as np
import z3
from scipy.constants import k as kB, N_A

from symx.core import sym_float, Engine, SR, SB, noprint, uf_exp
from symx.arr import sarr, SArr
from symx import sparse as sp
from symx.npproxy import NPProxy
from symx.prove import Prover
from symx.runner import Acc
from symx.selftest import sparse_selftest
from harness.common import bound, z, fval, sym_patterns, isclose
from harness.geom import DirStub
from harness.fgstub import FullSphereStub, make_fullgrid, gen_G, orbits
from harness import c02

PROPERTY = "C14"
FUNCTIONS = ["molgri.molecules.transitions.DecompositionTool.get_decomposition (eigs stubbed)", "molgri.io.GridWriter.save_volumes/save_borders_array/save_distances_array/save_adjacency_array/save_full_grid",
             "molgri.io.GridReader.load_volumes/load_borders_array/load_distances_array/load_adjacency_array",
             "FullGrid.get_full_borders/get_full_distances/get_full_adjacency/get_total_volumes (and everything under C02)",
             "molgri.molecules.transitions.SQRA.get_rate_matrix"]
STUBS = c02.STUBS + ["scipy.sparse.linalg.eigs (ARPACK) -> contract stub: k arbitrary pairwise distinct real eigenvalues in arbitrary order with their vectors, a fresh set per call; refuses operator keywords",
                     "scipy.sparse.save_npz/load_npz and np.save/np.load -> identity on (format, index arrays, data) -- checked against real files in the self-test",
                     "exp -> uninterpreted function with positivity and the homomorphism instances named by the harness"]
ASSUMPTIONS = c02.ASSUMPTIONS + ["energy differences of adjacent cells below the 500 kJ/mol cap for the balance claims"]
OUTSIDE = ["the numerical part of the spectral sentence: accuracy of ARPACK's eigenpairs, 'largest is zero', agreement with a dense eigen-solver (Fortran, iterative, "
           "tolerance-based); the Python glue around it (transpose, descending sort, pairing of vectors with values) IS covered with eigs as a contract stub, "
           "also for one tool asked twice with two distinct symbolic shifts (shape spectral_shift: two calls, k=2); what ARPACK returns for a caller-supplied "
           "shift-invert operator is outside the stand-in's contract (decided by the replay on real scipy alone: reproduced -> violation, else harness error)",
           "Cartesian position mode", "sizes beyond the bound"]
RT2 = 2 * z3.RealVal(str(__import__("fractions").Fraction(kB * N_A)))


def bounds(tier):
    q = [(1, 2, 2), (2, 1, 2), (3, 1, 2), (2, 2, 2), (1, 3, 2)]
    t = q + [(3, 2, 2), (2, 2, 3), (2, 3, 2), (3, 1, 3)]
    return {"(n_b,n_o,n_t)": q if tier == "quick" else t, "direction_patterns": "all symmetric patterns", "rotation_patterns": "all (symbolic, by forking)",
            "spectral_glue_k": [2, 3, 4] if tier == "quick" else [2, 3, 4, 5], "spectral_shift": {"calls_on_one_tool": [2] if tier == "quick" else [2, 3], "k": [2] if tier == "quick" else [2, 3], "shifts": "symbolic reals, pairwise distinct"}}


def shapes(tier, seed):
    combos = bounds(tier)["(n_b,n_o,n_t)"]
    out = []
    for (b, o, t) in combos:
        pats = list(sym_patterns(o))
        if tier == "quick" and b >= 2 and o >= 2:
            pats = [pats[-1]]          # composed 8-cell shapes: complete direction pattern in quick, all in thorough
        for pat in pats:
            # the symbolic rotation pattern is split over sub-shapes (fixed truth values of the first orbits) so that 16 workers share it
            norb = len(orbits(b)[1]) if b > 1 else 0
            k = min(norb, 2 if b * o * t <= 8 else 3)
            for bits in itertools.product((False, True), repeat=k):
                out.append({"n_b": b, "n_o": o, "n_t": t, "pattern": [list(p) for p in pat], "gseed": seed + len(pat), "fixed": {str(i): bool(x) for i, x in enumerate(bits)}})
    out.sort(key=lambda s: s["n_b"] * s["n_o"] * s["n_t"])
    for k in ((2, 3, 4) if tier == "quick" else (2, 3, 4, 5)):
        out.insert(0, {"kind": "spectral_glue", "k": k, "n": 3, "n_b": 0, "n_o": 0, "n_t": 0})
    out.insert(0, {"kind": "spectral_shift", "k": 2, "n": 3, "calls": 2, "n_b": 0, "n_o": 0, "n_t": 0})
    if tier != "quick":
        out.insert(0, {"kind": "spectral_shift", "k": 3, "n": 3, "calls": 3, "n_b": 0, "n_o": 0, "n_t": 0})
    return out


class Store:
    """np.save / save_npz as the identity on the stored object"""

    def __init__(self):
        self.d = {}

    def save_npz(self, path, M, compressed=True):
        if getattr(M, "format", None) not in ("csr", "coo", "csc"):
            raise AttributeError("Save is not implemented for this sparse format")
        self.d[path] = M.copy()

    def load_npz(self, path):
        return self.d[path].copy()


class ProxyIO(NPProxy):
    def __init__(self, store):
        self.store = store

    def save(self, path, arr, **k):
        self.store.d[path] = self.array(list(arr) if isinstance(arr, list) else arr, dtype=None)

    def load(self, path, **k):
        return self.store.d[path].copy()


def run_glue(shape):
    """The Python glue of the spectral sentence with ARPACK as a contract stub: `eigs` returns k ARBITRARY real eigenvalues in an
    ARBITRARY order, column i of the vector matrix belonging to value i.  Proved for all values: the returned eigenvalues are in
    descending order, they are a permutation of what the solver returned, and column j of the returned matrix is the vector
    that belongs to returned value j.  (That ARPACK's pairs are accurate, that the largest is zero, agreement with a dense solver:
    outside.)"""
    import molgri.molecules.transitions as T
    k, n = shape["k"], shape["n"]
    lam = [z3.Real(f"lam{i}") for i in range(k)]
    vec = [[z3.Real(f"vec{r}_{i}") for i in range(k)] for r in range(n)]
    eng = Engine()
    prover = Prover(timeout_ms=10000, budget_s=300)
    acc = Acc(shape)
    eng.assume_global(*[z3.Or(lam[i] < lam[j], lam[j] < lam[i]) for i in range(k) for j in range(i + 1, k)])
    vals_in = [SR(x) for x in lam]
    vecs_in = [[SR(x) for x in row] for row in vec]

    class Mat:
        T = "transposed-matrix"

    def fake_eigs(A, k=6, tol=0, maxiter=None, which="LM", sigma=None, **kw):
        from symx.core import Unsupported
        extra = {k_: v for k_, v in kw.items() if v is not None and k_ not in ("v0", "ncv", "return_eigenvectors")}
        if extra:
            # the contract of this stand-in covers the plain call only; an operator handed to ARPACK (OPinv, M, Minv, OPpart) changes what
            # ARPACK returns in ways the stand-in does not describe -> not decidable here (harness error, never a pass)
            raise Unsupported(f"eigs contract stub: keyword(s) {sorted(extra)} are not covered by the contract")
        if A != "transposed-matrix":
            raise AssertionError("the decomposition must be asked for the TRANSPOSE (left eigenvectors)")
        return sarr(list(vals_in)), sarr([list(r) for r in vecs_in])

    def body():
        with bound(T, eigs=fake_eigs, print=noprint):
            return T.DecompositionTool(Mat()).get_decomposition(tol=1e-5, maxiter=1000, which="LR", sigma=None, k=k)

    for path in eng.explore(body):
        acc.begin(prover, path)
        if path.kind == "exc":
            acc.structural("no_exception", False, detail=repr(path.value) + (path.tb or "")[-600:], cex={"kind": "exception", "exc": type(path.value).__name__, "model": c02._model(path)})
            continue
        if acc.reachable is not True:
            acc.reach(prover.satisfiable(path.premises))
        ev, evec = path.value
        m = c02._model(path)
        ok = tuple(np.shape(ev)) == (k,) and tuple(np.shape(evec)) == (n, k)
        acc.structural("shapes", ok, detail=(np.shape(ev), np.shape(evec)), cex={"model": m})
        if not ok:
            continue
        claims = [(f"descending[{j}]", z(ev[j]) >= z(ev[j + 1])) for j in range(k - 1)]
        # which input value is at output position j (decided by the solver under the path's comparisons)
        for j in range(k):
            claims.append((f"is_a_returned_value[{j}]", z3.Or([z(ev[j]) == lam[i] for i in range(k)])))
            for r in range(n):
                claims.append((f"vector_belongs_to_value[{j},{r}]", z3.And([z3.Implies(z(ev[j]) == lam[i], z(evec[r, j]) == vec[r][i]) for i in range(k)])))
        claims.append(("permutation", z3.And([z3.Or([z(ev[j]) == lam[i] for j in range(k)]) for i in range(k)])))
        acc.add(prover.prove_all(path.premises, claims), make_cex=lambda r_: {})
    return acc.result(eng.stats, prover.stats)


def replay_glue(cex):
    import contextlib, io
    import molgri.molecules.transitions as T
    k, n = cex["shape"]["k"], cex["shape"]["n"]
    model = cex.get("model", {}) or {}
    rng = np.random.default_rng(1)
    bad = []
    trials = [(np.array([fval(model, f"lam{i}", float(i)) for i in range(k)]), np.array([[fval(model, f"vec{r}_{i}", float(10 * r + i)) for i in range(k)] for r in range(n)]))]
    import itertools as it
    base = np.arange(k, dtype=float)
    for perm in it.permutations(range(k)):
        trials.append((base[list(perm)] * 1.5 - 2.0, np.array([[10.0 * r + perm[i] for i in range(k)] for r in range(n)])))
    old = T.eigs
    try:
        for lam, vec in trials:
            if len(set(lam.tolist())) < k:
                continue
            T.eigs = lambda A, k=6, **kw: (lam.astype(complex), vec.astype(complex))
            with contextlib.redirect_stdout(io.StringIO()):
                ev, evec = T.DecompositionTool(np.eye(n)).get_decomposition(tol=1e-5, maxiter=100, which="LR", sigma=None, k=k)
            if not np.all(np.diff(ev) <= 0):
                bad.append(f"eigenvalues not descending: {ev.tolist()}")
            for j in range(k):
                i = int(np.argmin(np.abs(lam - ev[j])))
                if not np.allclose(evec[:, j], vec[:, i]):
                    bad.append(f"solver returned values {lam.tolist()}: column {j} of the result is not the vector of eigenvalue {ev[j]}")
                    break
    finally:
        T.eigs = old
    return {"reproduced": bool(bad), "detail": str(bad[:2])}


def run_shift(shape):
    """One DecompositionTool asked `calls` times with DIFFERENT symbolic spectral shifts s_0, s_1, ... (arbitrary reals, pairwise
    distinct).  ARPACK is the contract stub of `run_glue`, extended by the shift: it answers for the shift it is HANDED, and its
    contract covers no caller-supplied operator.  Proved for all shift values: call c hands the solver exactly s_c (not the shift of
    an earlier call, not None, not a rounded value), asks for the transpose, and the answer of call c is the sorted answer the solver
    gave to call c (nothing cached from an earlier call)."""
    import molgri.molecules.transitions as T
    k, n, calls = shape["k"], shape["n"], shape["calls"]
    sig = [z3.Real(f"sigma{c}") for c in range(calls)]
    lam = [[z3.Real(f"lam{c}_{i}") for i in range(k)] for c in range(calls)]
    vec = [[[z3.Real(f"vec{c}_{r}_{i}") for i in range(k)] for r in range(n)] for c in range(calls)]
    eng = Engine()
    prover = Prover(timeout_ms=10000, budget_s=300)
    acc = Acc(shape)
    eng.assume_global(*[sig[a] != sig[b] for a in range(calls) for b in range(a + 1, calls)])
    for c in range(calls):
        eng.assume_global(*[z3.Or(lam[c][i] < lam[c][j], lam[c][j] < lam[c][i]) for i in range(k) for j in range(i + 1, k)])

    class Mat:
        T = "transposed-matrix"

    def body():
        seen = []

        def fake_eigs(A, k=6, tol=0, maxiter=None, which="LM", sigma=None, **kw):
            from symx.core import Unsupported
            extra = {k_: v for k_, v in kw.items() if v is not None and k_ not in ("v0", "ncv", "return_eigenvectors")}
            if extra:
                raise Unsupported(f"eigs contract stub: keyword(s) {sorted(extra)} are not covered by the contract")
            if A != "transposed-matrix":
                raise AssertionError("the decomposition must be asked for the TRANSPOSE (left eigenvectors)")
            c = len(seen)
            seen.append(sigma)
            return sarr([SR(x) for x in lam[c]]), sarr([[SR(x) for x in row] for row in vec[c]])

        with bound(T, eigs=fake_eigs, print=noprint):
            tool = T.DecompositionTool(Mat())
            outs = [tool.get_decomposition(tol=1e-5, maxiter=1000, which="LR", sigma=SR(sig[c]), k=k) for c in range(calls)]
        return outs, seen

    for path in eng.explore(body):
        acc.begin(prover, path)
        if path.kind == "exc":
            acc.structural("no_exception", False, detail=repr(path.value) + (path.tb or "")[-600:], cex={"kind": "exception", "exc": type(path.value).__name__, "model": c02._model(path)})
            continue
        if acc.reachable is not True:
            acc.reach(prover.satisfiable(path.premises))
        outs, seen = path.value
        m = c02._model(path)
        acc.structural("one_solver_call_per_decomposition", len(seen) == calls, detail=len(seen), cex={"model": m})
        if len(seen) != calls:
            continue
        claims = []
        for c in range(calls):
            ok = isinstance(seen[c], SR) or isinstance(seen[c], (int, float))
            acc.structural(f"shift_handed_to_solver[{c}]", ok, detail=repr(seen[c]), cex={"model": m})
            if not ok:
                continue
            claims.append((f"shift_is_the_requested_one[{c}]", z(seen[c]) == sig[c]))
            ev, evec = outs[c]
            if tuple(np.shape(ev)) != (k,) or tuple(np.shape(evec)) != (n, k):
                acc.structural(f"shapes[{c}]", False, detail=(np.shape(ev), np.shape(evec)), cex={"model": m})
                continue
            claims += [(f"descending[{c},{j}]", z(ev[j]) >= z(ev[j + 1])) for j in range(k - 1)]
            for j in range(k):
                claims.append((f"answer_of_this_call[{c},{j}]", z3.Or([z(ev[j]) == lam[c][i] for i in range(k)])))
                for r in range(n):
                    claims.append((f"vector_belongs_to_value[{c},{j},{r}]", z3.And([z3.Implies(z(ev[j]) == lam[c][i], z(evec[r, j]) == vec[c][r][i]) for i in range(k)])))
        acc.add(prover.prove_all(path.premises, claims), make_cex=lambda r_: {"model": m})
    return acc.result(eng.stats, prover.stats)


def replay_shift(cex):
    """Real scipy, real ARPACK: one tool asked with two different shifts against a fresh tool per shift and against the dense solver."""
    import contextlib, io
    import molgri.molecules.transitions as T
    from scipy.sparse import csr_array
    model = cex.get("model", {}) or {}
    # a reversible, connected 6-cell rate matrix (detailed balance w.r.t. pi), eigenvalues real and simple
    rng = np.random.default_rng(14)
    nn = 6
    pi = rng.uniform(0.5, 2.0, nn)
    S = np.triu(rng.uniform(0.2, 1.0, (nn, nn)), 1)
    S = S + S.T
    Q = S * np.sqrt(pi[None, :] / pi[:, None])
    Q = Q - np.diag(Q.sum(axis=1))
    dense = np.sort(np.linalg.eigvals(Q.T).real)[::-1]
    shifts = [fval(model, "sigma0", 0.05), fval(model, "sigma1", float(dense[-1]) - 0.3)]
    shifts = [s if np.min(np.abs(dense - s)) > 1e-6 else s + 0.0123 for s in shifts]
    if abs(shifts[0] - shifts[1]) < 1e-9:
        shifts[1] = float(dense[-1]) - 0.3
    # make sure the two shifts select different eigenvalues, otherwise a stale answer is invisible
    near = [set(np.argsort(np.abs(dense - s))[:2].tolist()) for s in shifts]
    if near[0] == near[1]:
        shifts = [0.05, float(dense[-1]) - 0.3]
    bad = []
    for order in (shifts, shifts[::-1]):
        try:
            with contextlib.redirect_stdout(io.StringIO()):
                tool = T.DecompositionTool(csr_array(Q))
                for s in order:
                    ev, evec = tool.get_decomposition(tol=1e-10, maxiter=10000, which="LM", sigma=s, k=2)
                    ref, _ = T.DecompositionTool(csr_array(Q)).get_decomposition(tol=1e-10, maxiter=10000, which="LM", sigma=s, k=2)
                    want = np.sort(dense[np.argsort(np.abs(dense - s))[:2]])[::-1]
                    if not np.allclose(ev, want, atol=1e-6):
                        bad.append(f"shifts asked in order {order}: for sigma={s} the tool returned {ev.tolist()}, the dense solver's two eigenvalues nearest sigma are {want.tolist()} (fresh tool: {ref.tolist()})")
        except Exception as e:
            bad.append(f"shifts {order}: {type(e).__name__}: {e}")
    return {"reproduced": bool(bad), "detail": str(bad[:2])}


def run_shape(shape):
    if shape.get("kind") == "spectral_glue":
        return run_glue(shape)
    if shape.get("kind") == "spectral_shift":
        return run_shift(shape)
    import molgri.space.fullgrid as F
    import molgri.space.translations as TR
    import molgri.space.voronoi as Vm
    import molgri.molecules.transitions as T
    import molgri.io as IO
    n_b, n_o, n_t = shape["n_b"], shape["n_o"], shape["n_t"]
    pattern = [tuple(p) for p in shape["pattern"]]
    area, arc, ang, r, f, orb, order, pat, val, vols = c02._vars(shape)
    n = n_b * n_o * n_t
    E = [z3.Real(f"E{i}") for i in range(n)]
    D, Tt = z3.Real("D"), z3.Real("T")
    eng = Engine()
    prover = Prover(timeout_ms=30000, budget_s=1200)
    acc = Acc(shape)
    pos = area + list(set(arc.values())) + list(set(ang.values())) + r + [f, D, Tt] + vols + [v for p in val for v in val[p].values()]
    pre = [v > 0 for v in pos] + [r[k + 1] > r[k] for k in range(n_t - 1)]
    eng.assume_global(*pre)
    for v in pos:
        eng.declare_sign(v, "+")
    for i_, b_ in shape["fixed"].items():
        eng.assume_global(pat[order[int(i_)]] if b_ else z3.Not(pat[order[int(i_)]]))
    proxy = NPProxy()
    G = gen_G(n_b, shape["gseed"]) if n_b > 1 else None
    o = DirStub(n_o, pattern, [SR(a) for a in area], {k: SR(v) for k, v in arc.items()}, {k: SR(v) for k, v in ang.items()}, sp, lambda l: sarr(l))

    def body():
        store = Store()
        pio = ProxyIO(store)
        with bound(F, bmat=sp.bmat, kron=sp.kron, identity=sp.identity, eye=sp.eye, block_diag=sp.block_diag, coo_matrix=sp.coo_array, csr_matrix=sp.csr_array, csc_matrix=sp.csc_array, csr_array=sp.csr_array, csc_array=sp.csc_array, coo_array=sp.coo_array, diags=sp.diags, print=noprint, np=proxy), bound(TR, np=proxy, print=noprint), \
                bound(Vm, coo_array=sp.coo_array, print=noprint, np=proxy), bound(IO, sparse=store, np=pio), \
                bound(T, coo_array=sp.coo_array, csr_array=sp.csr_array, csc_array=sp.csc_array, print=noprint, np=proxy, float=sym_float):
            stub = FullSphereStub(n_b, sp, lambda k: bool(SB(pat[k])), lambda p, k: SR(val[p][k]), lambda i: SR(vols[i]), lambda l: sarr(l)) if n_b > 1 else None
            fg = make_fullgrid(F, TR, Vm, n_b, o, sarr([SR(x) for x in r]), SR(f), G, stub)
            w = object.__new__(IO.GridWriter)
            w.fg = fg
            w.save_volumes("vol.npy"); w.save_borders_array("bor.npz"); w.save_distances_array("dis.npz"); w.save_adjacency_array("adj.npz")
            rd = IO.GridReader()
            V, S, H, A = rd.load_volumes("vol.npy"), rd.load_borders_array("bor.npz"), rd.load_distances_array("dis.npz"), rd.load_adjacency_array("adj.npz")
            # ------------------------------------------------------------------ guarantee side of the cut
            cut = {"shape_ok": tuple(S.shape) == tuple(H.shape) == tuple(A.shape) == (n, n) and len(V) == n}
            if not cut["shape_ok"]:
                return cut, None, None, None, None
            Sc, Hc, Ac = S.tocsr(), H.tocsr(), A.tocsr()
            cut["same_order"] = (getattr(S, "format", None) == getattr(H, "format", None) and list(Sc.indices) == list(Hc.indices) == list(Ac.indices)
                                 and list(Sc.indptr) == list(Hc.indptr) == list(Ac.indptr)
                                 and [(int(a), int(b)) for a, b in zip(S.tocoo().row, S.tocoo().col)] == [(int(a), int(b)) for a, b in zip(H.tocoo().row, H.tocoo().col)])
            Sd, Hd = S.toarray(), H.toarray()
            cut["claims"] = []
            for i in range(n):
                for j in range(i + 1, n):
                    cut["claims"].append((f"S_symmetric[{i},{j}]", z(Sd[i, j]) == z(Sd[j, i])))
                    cut["claims"].append((f"h_symmetric[{i},{j}]", z(Hd[i, j]) == z(Hd[j, i])))
            cut["claims"] += [(f"S_stored_positive#{k_}", z(v) > 0) for k_, v in enumerate(S.tocoo().data)]
            cut["claims"] += [(f"h_stored_positive#{k_}", z(v) > 0) for k_, v in enumerate(H.tocoo().data)]
            cut["claims"] += [(f"volume_positive[{i}]", z(V[i]) > 0) for i in range(n)]
            cut["diag_empty"] = all(int(a) != int(b) for a, b in zip(S.tocoo().row, S.tocoo().col))
            # ------------------------------------------------------------------ assume side: fresh positive values, produced layout
            Scoo = S.tocoo()
            keys = [(int(a), int(b)) for a, b in zip(Scoo.row, Scoo.col)]
            e = Engine.cur
            fs, fh = {}, {}
            for (i, j) in keys:
                a, b = (i, j) if i < j else (j, i)
                fs[(i, j)] = z3.Real(f"s_{a}_{b}")
                fh[(i, j)] = z3.Real(f"h_{a}_{b}")
            fv = [z3.Real(f"v_{i}") for i in range(n)]
            for x in list(fs.values()) + list(fh.values()) + fv:
                e.declare_sign(x, "+")
                e.axiom(x > 0)

            def relaid(M, vals):
                """the loaded matrix with its data replaced entry by entry (same class, same stored order)"""
                M2 = M.copy()
                c = M.tocoo()
                ks = [(int(a), int(b)) for a, b in zip(c.row, c.col)]
                M2.data = sarr([SR(vals[k]) for k in ks]) if ks else M2.data
                return M2
            sq = T.SQRA(energies=sarr([SR(x) for x in E]), volumes=sarr([SR(x) for x in fv]), distances=relaid(H, fh), surfaces=relaid(S, fs))
            Q = sq.get_rate_matrix(SR(D), SR(Tt))
            Qagain = sq.get_rate_matrix(SR(D), SR(Tt))   # e.g. a temperature scan re-uses the loaded arrays
            cut["again"] = Qagain
            return cut, A, Q, fv, keys

    expf = uf_exp()
    Rgas = RT2 / 2 / 1000
    memo = {}
    for path in eng.explore(body):
        acc.begin(prover, path)
        m = None
        if path.kind == "exc":
            acc.structural("no_exception", False, detail=repr(path.value) + (path.tb or "")[-700:], cex={"kind": "exception", "exc": type(path.value).__name__, "model": c02._model(path)})
            continue
        if acc.reachable is not True:
            acc.reach(prover.satisfiable(path.premises))
        cut, A, Q, fv, keys = path.value
        acc.structural("shapes_after_reading_back", cut["shape_ok"], detail="n x n matrices and n volumes expected", cex={"model": c02._model(path)})
        if not cut["shape_ok"]:
            continue
        acc.structural("borders_distances_adjacency_same_pattern_and_order", bool(cut["same_order"]), detail="indices/indptr/format of the files differ", cex={"model": c02._model(path)})
        acc.structural("empty_diagonal", bool(cut["diag_empty"]), detail="stored diagonal entry", cex={"model": c02._model(path)})
        res = prover.prove_all(path.premises, cut["claims"])
        acc.add(res, make_cex=lambda r_: {})
        if not (cut["same_order"] and all(r_.verdict == "proved" for r_ in res)):
            continue  # the boundary obligations failed: that is the violation; nothing downstream is claimed
        # ---------------------------------------------------------------------- obligations on the rate matrix
        Ad = A.toarray()
        adj = {(i, j) for (i, j) in keys}
        okpat = all(((i, j) in adj) == bool(Ad[i, j]) for i in range(n) for j in range(n) if i != j)
        acc.structural("S_pattern_is_the_saved_adjacency", okpat, detail="pattern of borders differs from the adjacency file", cex={"model": c02._model(path)})
        # After the cut the rate matrix is a function of the produced layout only (fresh variables): paths that produce the same
        # layout share one set of proofs, provided those proofs used nothing but the cut's own facts (path-independent premises).
        layout = (tuple(keys), getattr(Q, "format", None), tuple(int(x) for x in Q.tocsr().indices), tuple(int(x) for x in Q.tocsr().indptr))
        if layout in memo:
            acc.obligations += memo[layout]
            acc.proved += memo[layout]
            acc.extra["rate_matrix_obligations_reused_for_same_layout"] = acc.extra.get("rate_matrix_obligations_reused_for_same_layout", 0) + memo[layout]
            continue
        before = (acc.obligations, acc.proved, len(acc.violations), len(acc.inconclusive))
        Qd = Q.toarray()
        cutfacts = [x > 0 for x in fv] + [z3.Real(f"s_{min(i, j)}_{max(i, j)}") > 0 for (i, j) in keys] + [z3.Real(f"h_{min(i, j)}_{max(i, j)}") > 0 for (i, j) in keys] + [D > 0, Tt > 0]
        expaxioms = [a for a in path.axioms if "exp" in str(a.decl()) or "exp(" in str(a)[:2000]]
        indep = cutfacts + [a for a in path.axioms]
        claims = []
        for i in range(n):
            for j in range(n):
                if i != j:
                    claims.append((f"Q_pattern[{i},{j}]", (z(Qd[i, j]) != 0) == z3.BoolVal((i, j) in adj)))
            claims.append((f"rowsum[{i}]", z3.Sum([z(Qd[i, j]) for j in range(n)]) == 0))
        Qa = cut["again"].toarray()
        claims += [(f"second_call_same_matrix[{i},{j}]", z(Qa[i, j]) == z(Qd[i, j])) for i in range(n) for j in range(n)]
        acc.add(prover.prove_all(indep, claims), make_cex=lambda r_: {})
        db_ok = 0
        pi = [fv[i] * expf(-E[i] / (Rgas * Tt)) for i in range(n)]
        for (i, j) in sorted(adj):
            if i > j:
                continue
            d = E[i] - E[j]
            under = z3.And(d < 500, -d < 500)
            xi, xj = -E[i] / (Rgas * Tt), -E[j] / (Rgas * Tt)
            ai, aj = (E[i] - E[j]) * 1000 / (RT2 * Tt), (E[j] - E[i]) * 1000 / (RT2 * Tt)
            hom = [expf(xi) * expf(ai) == expf(xi + ai), expf(xj) * expf(aj) == expf(xj + aj), expf(xi) > 0, expf(xj) > 0]
            lem = prover.prove(f"DBlemma[{i},{j}]", [Tt > 0, under], xi + ai == xj + aj)
            acc.add([lem])
            claim = pi[i] * z(Qd[i, j]) == pi[j] * z(Qd[j, i])
            extra = [under] + hom + ([xi + ai == xj + aj] if lem.verdict == "proved" else [])
            rdb = prover.prove(f"detailed_balance[{i},{j}]", indep + extra, claim, timeout_ms=30000)
            acc.add([rdb], make_cex=lambda r_: {})
            db_ok += rdb.verdict == "proved"
        # stationarity pi Q = 0 from balance + zero row sums, through flux variables (a linear argument once products are named)
        if db_ok == len([1 for (i, j) in adj if i < j]):
            flux = {(i, j): z3.Real(f"flux_{i}_{j}") for (i, j) in adj}
            dbf = [flux[(i, j)] == flux[(j, i)] for (i, j) in adj if i < j]
            col = []
            for j in range(n):
                inflow = z3.Sum([flux[(i, j)] for i in range(n) if (i, j) in adj] + [z3.RealVal(0)])
                outflow = z3.Sum([flux[(j, i)] for i in range(n) if (j, i) in adj] + [z3.RealVal(0)])
                col.append((f"stationary_flux_balance[{j}]", inflow - outflow == 0))
            acc.add(prover.prove_all(dbf, col), make_cex=lambda r_: {})
            # the naming is faithful: pi_j * Q_jj = -(sum_i pi_j Q_ji) because row j sums to zero (distribution of a product over a sum)
            pj, qs = z3.Real("pj"), [z3.Real(f"qq{k_}") for k_ in range(3)]
            acc.add([prover.prove("diagonal_flux_identity", [qs[0] + qs[1] + qs[2] == 0], pj * qs[0] == -(pj * qs[1] + pj * qs[2]))], make_cex=lambda r_: {})
        if len(acc.violations) == before[2] and len(acc.inconclusive) == before[3]:
            memo[layout] = acc.obligations - before[0]
    return acc.result(eng.stats, prover.stats)


# ------------------------------------------------------------------------------------------ replay: real files, real scipy
def replay(cex):
    if cex["shape"].get("kind") == "spectral_glue":
        return replay_glue(cex)
    if cex["shape"].get("kind") == "spectral_shift":
        return replay_shift(cex)
    import contextlib, io, shutil
    import molgri.io as IO
    import molgri.molecules.transitions as T
    shape = cex["shape"]
    model = cex.get("model", {}) or {}
    n = shape["n_b"] * shape["n_o"] * shape["n_t"]
    tmp = tempfile.mkdtemp(prefix="c14_")
    bad = []
    try:
        with contextlib.redirect_stdout(io.StringIO()):
            fg, spec = c02.real_fullgrid(shape, model)
            w = object.__new__(IO.GridWriter)
            w.fg = fg
            p = lambda nm: os.path.join(tmp, nm)
            w.save_volumes(p("vol.npy")); w.save_borders_array(p("bor.npz")); w.save_distances_array(p("dis.npz")); w.save_adjacency_array(p("adj.npz"))
            rd = IO.GridReader()
            V, S, H, A = rd.load_volumes(p("vol.npy")), rd.load_borders_array(p("bor.npz")), rd.load_distances_array(p("dis.npz")), rd.load_adjacency_array(p("adj.npz"))
            rng = np.random.default_rng(3)
            E = np.array([fval(model, f"E{i}", float(rng.uniform(-10, 10))) for i in range(n)])
            Tt, D = fval(model, "T", 300.0), fval(model, "D", 1.0)
            if not (200 <= Tt <= 400):
                Tt = 300.0
            sq = T.SQRA(E, np.asarray(V, dtype=float), H, S)
            Q = sq.get_rate_matrix(D, Tt)
            Q = sq.get_rate_matrix(D, Tt)     # the property must hold for every call, not only the first one on freshly loaded arrays
    except Exception as e:  # noqa: BLE001
        shutil.rmtree(tmp, ignore_errors=True)
        return {"reproduced": True, "detail": f"writer/reader/rate matrix raised {e!r}"}
    shutil.rmtree(tmp, ignore_errors=True)
    Qd, Ad, Sd, Hd = (np.asarray(M.toarray(), dtype=float) for M in (Q, A, S, H))
    V = np.asarray(V, dtype=float)
    if Qd.shape != (n, n):
        return {"reproduced": True, "detail": f"shape {Qd.shape}"}
    R = kB * N_A / 1000
    pi = V * np.exp(-E / (R * Tt))
    if not np.allclose(Sd, Sd.T, rtol=1e-9, atol=1e-12):
        bad.append("borders not symmetric")
    if not np.allclose(Hd, Hd.T, rtol=1e-9, atol=1e-12):
        bad.append("distances not symmetric")
    Sc, Hc, Ac = S.tocsr(), H.tocsr(), A.tocsr()
    if not (list(Sc.indices) == list(Hc.indices) == list(Ac.indices) and list(Sc.indptr) == list(Hc.indptr) == list(Ac.indptr)):
        bad.append("files differ in pattern / stored order")
    if np.any(V <= 0) or np.any(np.asarray(S.tocoo().data) <= 0) or np.any(np.asarray(H.tocoo().data) <= 0):
        bad.append("non-positive volume / border / distance")
    for i in range(n):
        if abs(Qd[i].sum()) > 1e-9 * max(1.0, np.abs(Qd[i]).max()):
            bad.append(f"rowsum[{i}]")
        for j in range(n):
            if i != j and (Qd[i, j] != 0) != bool(Ad[i, j]):
                bad.append(f"Q_pattern[{i},{j}]")
            if i < j and Ad[i, j] and abs(E[i] - E[j]) < 500:
                l, r_ = pi[i] * Qd[i, j], pi[j] * Qd[j, i]
                if not isclose(l, r_, rtol=1e-8):
                    bad.append(f"detailed_balance[{i},{j}] {l} vs {r_}")
    stat = pi @ Qd
    if np.abs(stat).max() > 1e-8 * max(1e-300, np.abs(pi[:, None] * Qd).max()):
        bad.append("pi Q != 0")
    return {"reproduced": bool(bad), "detail": str(bad[:6])}


def finding_key(cex):
    s = cex["shape"]
    return f"C14:{s.get('kind', 'composed')}:{cex['obligation'].split('[')[0].split('#')[0]}:n_b={s['n_b']}"


def selftest(seed):
    """np.save/np.load and save_npz/load_npz are the identity on (format, index arrays, data): checked on real files"""
    import scipy.sparse as rsp
    n = sparse_selftest(seed, rounds=3)
    rng = np.random.default_rng(seed)
    tmp = tempfile.mkdtemp(prefix="c14st_")
    try:
        for k in range(4):
            m = int(rng.integers(2, 7))
            A = rng.uniform(0.5, 2, size=(m, m)) * (rng.random((m, m)) < 0.5)
            for M in (rsp.csr_array(A), rsp.coo_array(A), rsp.csr_array(A) + rsp.csr_array(A.T)):
                fn = os.path.join(tmp, f"m{k}.npz")
                rsp.save_npz(fn, M)
                L = rsp.load_npz(fn)
                assert L.format == M.format and L.shape == M.shape
                if M.format == "csr":
                    assert list(L.indices) == list(M.indices) and list(L.indptr) == list(M.indptr) and np.array_equal(L.data, M.data)
                else:
                    assert list(L.row) == list(M.row) and list(L.col) == list(M.col) and np.array_equal(L.data, M.data)
                n += 1
            v = list(rng.uniform(1, 2, size=m))
            fn = os.path.join(tmp, f"v{k}.npy")
            np.save(fn, v)
            assert np.array_equal(np.load(fn), np.array(v))
            n += 1
    finally:
        import shutil
        shutil.rmtree(tmp, ignore_errors=True)
    return n
