"""C01 -- SqRA rate matrix is the SqRA formula and a reversible generator.

The real `SQRA.get_rate_matrix` is executed on z3 reals: energies E_i free, V_i, S_ij=S_ji, h_ij=h_ji, D, T positive,
for every symmetric sparsity pattern on n cells and both storage forms (csr / row-major coo) of S and h.
"""
import itertools
import math

import numpy as np
import z3
from scipy.constants import k as kB, N_A

from symx.core import Engine, SR, noprint, uf_exp, sym_float
from symx.arr import sarr
from symx import sparse as sp
from symx.prove import Prover
from symx.runner import Acc
from symx.selftest import sparse_selftest
from symx.npproxy import NPProxy
from harness.common import real_code, RealCodeRaised, bound, z, fval, sym_patterns, exp_facts, exp_saturation, isclose

PROPERTY = "C01"
FUNCTIONS = ["molgri.molecules.transitions.SQRA.__init__", "molgri.molecules.transitions.SQRA.get_rate_matrix"]
STUBS = ["scipy.sparse.coo_array/csr_array -> symx.sparse exact-order models (self-tested against scipy each run)",
         "print -> no-op (arguments still evaluated by the caller)",
         "np.round(x,14) -> identity on the reals (k>=12); exp -> uninterpreted function with exp>0 and the "
         "homomorphism instances named by the harness"]
ASSUMPTIONS = ["float is modelled by the reals (no rounding, overflow, NaN)",
               "S and h are symmetric, strictly positive and share one pattern; volumes, D, T strictly positive",
               "inputs are csr or row-major coo (the forms the package itself produces)"]
OUTSIDE = ["n beyond the bound", "IEEE rounding (only the RANGE of the evaluated exponentials is checked, see float_range)", "non-row-major coo input"]

RT2 = 2 * z3.RealVal(str(__import__("fractions").Fraction(kB * N_A)))  # J/(mol K) * 2, exact binary value of the float


def bounds(tier):
    return {"n_cells": [2, 3, 4] if tier == "quick" else [2, 3, 4, 5], "patterns": "all symmetric patterns per n",
            "storage": "S,h each in {coo row-major, csr}", "paths": "<= nnz/2+1 per run (count of capped pairs)"}


def shapes(tier, seed):
    out = []
    ns = [2, 3, 4] if tier == "quick" else [2, 3, 4, 5]
    for n in ns:
        for pat in sym_patterns(n):
            if n == 5:
                fmts = [("coo", "csr"), ("csr", "coo")] if len(pat) % 2 else [("coo", "coo"), ("csr", "csr")]
            else:
                fmts = list(itertools.product(("coo", "csr"), repeat=2))
            for fs, fh in fmts:
                out.append({"n": n, "pattern": [list(p) for p in pat], "fmt_S": fs, "fmt_h": fh})
    # volumes handed over as an INTEGER numpy array (positive integers are positive volumes; the energies, areas, distances, D, T stay symbolic)
    for n in (2, 3):
        pats = list(sym_patterns(n))
        for pat in (pats[-1], pats[len(pats) // 2]):
            out.append({"n": n, "pattern": [list(p) for p in pat], "fmt_S": "coo", "fmt_h": "csr", "int_volumes": True})
    # small shapes first: a broken tree is refuted within seconds
    out.sort(key=lambda s: (s["n"], len(s["pattern"])))
    return out


def _vars(n, pattern):
    R = z3.Real
    E = [R(f"E{i}") for i in range(n)]
    V = [R(f"V{i}") for i in range(n)]
    S, H = {}, {}
    for (i, j) in pattern:
        S[(i, j)] = S[(j, i)] = R(f"S{i}_{j}")
        H[(i, j)] = H[(j, i)] = R(f"h{i}_{j}")
    return E, V, S, H, R("D"), R("T"), R("shift"), R("scale")


def run_shape(shape):
    import molgri.molecules.transitions as T
    n = shape["n"]
    pattern = [tuple(p) for p in shape["pattern"]]
    E, V, S, H, D, Tt, cshift, ascale = _vars(n, pattern)
    intv = bool(shape.get("int_volumes"))
    if intv:
        V = [z3.RealVal(2 + i) for i in range(n)]
    vols = (lambda: np.array([2 + i for i in range(n)], dtype=np.int64)) if intv else (lambda: sarr([SR(v) for v in V]))
    eng = Engine()
    prover = Prover(timeout_ms=20000, budget_s=240)
    acc = Acc(shape)
    pos = ([] if intv else V) + list(set(S.values())) + list(set(H.values())) + [D, Tt, ascale]
    pre = [v > 0 for v in pos]
    eng.assume_global(*pre)
    for v in pos:
        eng.declare_sign(v, "+")
    keys = sorted(S)

    def mk(vals, fmt):
        c = sp.coo_array(([SR(vals[k]) for k in keys], ([k[0] for k in keys], [k[1] for k in keys])), shape=(n, n))
        return c if fmt == "coo" else c.tocsr()

    def one(Evals, Dval):
        s = T.SQRA(energies=sarr([SR(e) for e in Evals]), volumes=vols(),
                   distances=mk(H, shape["fmt_h"]), surfaces=mk(S, shape["fmt_S"]))
        return s.get_rate_matrix(SR(Dval), SR(Tt))

    def body():
        with bound(T, coo_array=sp.coo_array, csr_array=sp.csr_array, csc_array=sp.csc_array, print=noprint, np=NPProxy(), float=sym_float):
            # another rate matrix of the same process (same pattern and sizes, other numbers) is built first
            from symx.core import rv
            dk = {k: rv(0.5 + 0.25 * (k[0] + k[1])) for k in keys}
            T.SQRA(energies=sarr([SR(rv(1.5 * i - 2.0)) for i in range(n)]), volumes=sarr([SR(rv(1.0 + 0.5 * i)) for i in range(n)]),
                   distances=mk(dk, shape["fmt_h"]), surfaces=mk({k: 2 * v for k, v in dk.items()}, shape["fmt_S"])).get_rate_matrix(SR(rv(0.7)), SR(rv(280.0)))
            Q = one(E, D)
            Qs = one([e + cshift for e in E], D)
            Qa = one(E, ascale * D)
            # a second call on the SAME object and the same input arrays: the builder must be a pure function of its inputs
            Sm, Hm = mk(S, shape["fmt_S"]), mk(H, shape["fmt_h"])
            En, Vn = sarr([SR(e) for e in E]), vols()
            obj = T.SQRA(energies=En, volumes=Vn, distances=Hm, surfaces=Sm)
            q1 = obj.get_rate_matrix(SR(D), SR(Tt))
            q2 = obj.get_rate_matrix(SR(D), SR(Tt))
            inputs_after = (list(Sm.data), list(Hm.data), list(En), list(Vn))
        return Q, Qs, Qa, q1, q2, inputs_after

    expf = uf_exp()
    for path in eng.explore(body):
        acc.begin(prover, path)
        if path.kind == "exc":
            acc.structural("no_exception", False, detail=repr(path.value),
                           cex={"kind": "exception", "exc": type(path.value).__name__})
            continue
        Q, Qs, Qa, q1, q2, inputs_after = path.value
        prem = path.premises
        if acc.reachable is not True:
            acc.reach(prover.satisfiable(prem))
        acc.structural("result_is_csr", getattr(Q, "format", None) == "csr" and Q.shape == (n, n), detail=str(getattr(Q, "format", None)))
        Qd, Qsd, Qad = Q.toarray(), Qs.toarray(), Qa.toarray()
        claims = []
        argterms = []
        for i in range(n):
            rowsum = z3.RealVal(0)
            for j in range(n):
                q = z(Qd[i, j])
                rowsum = rowsum + q
                claims.append((f"shift[{i},{j}]", z(Qsd[i, j]) == q))
                claims.append((f"linear[{i},{j}]", z(Qad[i, j]) == ascale * q))
                if i == j:
                    continue
                if (i, j) in S:
                    d = E[i] - E[j]
                    arg = z3.If(d < 500, d, z3.RealVal(500)) * 1000 / (RT2 * Tt)
                    argterms.append(arg)
                    claims.append((f"formula[{i},{j}]", q == D * S[(i, j)] / (H[(i, j)] * V[i]) * expf(arg)))
                else:
                    claims.append((f"zero[{i},{j}]", q == 0))
            claims.append((f"rowsum[{i}]", rowsum == 0))
        q1d, q2d = q1.toarray(), q2.toarray()
        for i in range(n):
            for j in range(n):
                claims.append((f"repeat_call[{i},{j}]", z3.And(z(q1d[i, j]) == z(Qd[i, j]), z(q2d[i, j]) == z(Qd[i, j]))))
        Sa, Ha, Ea, Va = inputs_after
        claims += [(f"inputs_untouched[S,{k_}]", z(Sa[k_]) == S[keys[k_]]) for k_ in range(len(keys))]
        claims += [(f"inputs_untouched[h,{k_}]", z(Ha[k_]) == H[keys[k_]]) for k_ in range(len(keys))]
        claims += [(f"inputs_untouched[E,{i}]", z(Ea[i]) == E[i]) for i in range(n)] + [(f"inputs_untouched[V,{i}]", z(Va[i]) == V[i]) for i in range(n)]
        # IEEE range of the exponentials the code evaluates (the one float effect this harness does address): whenever the exponent of the
        # STATEMENT for an entry is comfortably inside the range of a double (|arg| <= 350) and 100 K <= T <= 1000 K, every exponential
        # the CODE evaluates on the way to that entry has its argument inside [-700, 700] too (no underflow to 0, no overflow to inf).
        # A refactoring that is an identity over the reals but routes through per-cell Boltzmann weights fails this, and the solver's
        # witness (huge common offset / spread of the energies) is replayed on the real code.
        frange = []
        spec_arg = {}
        for (i, j) in S:
            d = E[i] - E[j]
            spec_arg[(i, j)] = z3.If(d < 500, d, z3.RealVal(500)) * 1000 / (RT2 * Tt)
        safe = lambda a: z3.And(a >= -350, a <= 350)
        for Tv in (100, 300, 1000):      # three temperatures as separate obligations: with T fixed every exponent is linear in the energies
            for i in range(n):
                for j in range(n):
                    xs = _exp_args(z(Qd[i, j]))
                    if not xs:
                        continue
                    if i == j:
                        cond = z3.And([safe(spec_arg[(i, k)]) for k in range(n) if (i, k) in S] + [Tt == Tv])
                    elif (i, j) in S:
                        cond = z3.And(safe(spec_arg[(i, j)]), Tt == Tv)
                    else:
                        continue
                    claim = z3.Implies(cond, z3.And([z3.And(x >= -700, x <= 700) for x in xs]))
                    frange.append((f"float_range[{i},{j}]@T={Tv}", z3.simplify(z3.substitute(claim, (Tt, z3.RealVal(Tv))))))
        frange_prem = [z3.simplify(z3.substitute(p_, (Tt, z3.RealVal(300)))) for p_ in prem] if False else prem
        fres = prover.prove_all(prem, frange, timeout_ms=10000)
        acc.add(fres, make_cex=lambda r: {})
        res = prover.prove_all(prem, claims)
        refuted = [r for r in res if r.verdict != "proved"]
        if refuted and len(refuted) <= 40:
            # second attempt with the exponential's own laws instantiated at the arguments that occur (the first attempt only knows exp > 0)
            cd = dict(claims)
            sat_ax = exp_saturation([cd[r.name] for r in refuted] + prem)
            if len(sat_ax) <= 4000:
                retry = {r.name: prover.prove(r.name, prem + sat_ax, cd[r.name], timeout_ms=20000) for r in refuted}
                res = [retry[r.name] if (r.name in retry and retry[r.name].verdict == "proved") else r for r in res]
                acc.extra["proved_with_exp_saturation"] = acc.extra.get("proved_with_exp_saturation", 0) + sum(1 for r in retry.values() if r.verdict == "proved")
        nice = _nice(E, V, S, H, D, Tt, cshift, ascale) + exp_facts(argterms[:6])
        acc.add(res, make_cex=lambda r, prem=prem, claims=dict(claims): _cex(prover, prem, claims[r.name], nice, r))
        # detailed balance for pairs under the cap: lemma (exponent sums agree) then the two homomorphism instances
        Rgas = RT2 / 2 / 1000  # kJ/(mol K)
        for (i, j) in pattern:
            d = E[i] - E[j]
            under = z3.And(d < 500, -d < 500)
            xi, xj = -E[i] / (Rgas * Tt), -E[j] / (Rgas * Tt)
            ai, aj = (E[i] - E[j]) * 1000 / (RT2 * Tt), (E[j] - E[i]) * 1000 / (RT2 * Tt)
            lem = prover.prove(f"DBlemma[{i},{j}]", pre + [under], xi + ai == xj + aj)
            acc.add([lem])
            hom = [expf(xi) * expf(ai) == expf(xi + ai), expf(xj) * expf(aj) == expf(xj + aj), expf(xi) > 0, expf(xj) > 0]
            claim = V[i] * expf(xi) * z(Qd[i, j]) == V[j] * expf(xj) * z(Qd[j, i])
            extra = [under] + hom + ([xi + ai == xj + aj] if lem.verdict == "proved" else [])
            r = prover.prove(f"DB[{i},{j}]", prem + extra, claim, slice_=pre + extra + _defs(path, Qd, i, j), timeout_ms=30000)
            acc.add([r], make_cex=lambda r, p=prem + extra, c=claim: _cex(prover, p, c, nice + exp_facts([xi, xj, ai, aj, xi + ai]), r))
    return acc.result(eng.stats, prover.stats)


def _exp_args(term):
    """arguments of every application of exp inside a z3 term"""
    out, seen = {}, set()

    def walk(t):
        if t.get_id() in seen:
            return
        seen.add(t.get_id())
        if z3.is_app(t):
            if t.decl().name() == "exp" and t.num_args() == 1:
                out[t.arg(0).get_id()] = t.arg(0)
            for ch in t.children():
                walk(ch)
    walk(term)
    return list(out.values())


def _defs(path, Qd, i, j):
    """premise slice: nothing but the positivity facts is needed when the entries are closed terms"""
    return [a for a in path.axioms]


def _nice(E, V, S, H, D, Tt, cshift, ascale):
    out = [z3.And(x >= z3.RealVal("1/2"), x <= 4) for x in V + list(set(S.values())) + list(set(H.values())) + [D]]
    out += [z3.And(Tt >= 250, Tt <= 350), z3.And(ascale >= 2, ascale <= 3), z3.And(cshift >= 1, cshift <= 7)]
    out += [z3.And(e >= -700, e <= 700) for e in E]
    out += [z3.Or(a - b >= 1, b - a >= 1) for a, b in itertools.combinations(E, 2)]
    return out


def _cex(prover, prem, claim, nice, r):
    m = prover.nice_model(prem, claim, nice)
    if m is not None:
        return {"model": {k: (str(v) if not isinstance(v, bool) else v) for k, v in m.items()}, "nice": True}
    return {}


# ------------------------------------------------------------------------------------------ replay on the real code
def _real_inputs(shape, model):
    import scipy.sparse as rsp
    n = shape["n"]
    pattern = [tuple(p) for p in shape["pattern"]]
    g = lambda nm, d: fval(model, nm, d)
    E = np.array([g(f"E{i}", 0.0) for i in range(n)], dtype=float)
    V = np.array([g(f"V{i}", 1.0) for i in range(n)], dtype=float)
    if shape.get("int_volumes"):
        V = np.array([2 + i for i in range(n)], dtype=np.int64)
    keys = sorted([(i, j) for (i, j) in pattern] + [(j, i) for (i, j) in pattern])
    sv = {k: g("S%d_%d" % tuple(sorted(k)), 1.0) for k in keys}
    hv = {k: g("h%d_%d" % tuple(sorted(k)), 1.0) for k in keys}

    def mk(vals, fmt):
        c = rsp.coo_array(([vals[k] for k in keys], ([k[0] for k in keys], [k[1] for k in keys])), shape=(n, n))
        return c if fmt == "coo" else c.tocsr()
    return E, V, mk(sv, shape["fmt_S"]), mk(hv, shape["fmt_h"]), sv, hv, g("D", 1.0), g("T", 300.0), g("shift", 3.0), g("scale", 2.0)


def numeric_violations(shape, E, V, S, Hm, sv, hv, D, Tt, shift, scale):
    """evaluate the property on the real function with real scipy; list of failing obligation names"""
    import molgri.molecules.transitions as T
    import contextlib, io
    n = shape["n"]
    bad = []
    rel = lambda a, b: abs(a - b) <= 1e-9 * max(abs(a), abs(b))   # purely relative: rates span hundreds of orders of magnitude
    with contextlib.redirect_stdout(io.StringIO()), real_code():
        S0, H0, E0, V0 = S.copy(), Hm.copy(), E.copy(), V.copy()
        dk = {k: 0.5 + 0.25 * (k[0] + k[1]) for k in sv}
        import scipy.sparse as rsp
        ks_ = sorted(sv)
        mkd = lambda vals, fmt: (lambda c: c if fmt == "coo" else c.tocsr())(rsp.coo_array(([vals[k] for k in ks_], ([k[0] for k in ks_], [k[1] for k in ks_])), shape=(n, n)))
        T.SQRA(np.array([1.5 * i - 2.0 for i in range(n)]), np.array([1.0 + 0.5 * i for i in range(n)]), mkd(dk, shape["fmt_h"]),
               mkd({k: 2.0 * v for k, v in dk.items()}, shape["fmt_S"])).get_rate_matrix(0.7, 280.0)     # the decoy of the symbolic run
        obj = T.SQRA(E, V, Hm, S)
        Q = obj.get_rate_matrix(D, Tt)
        Q2 = obj.get_rate_matrix(D, Tt)
        untouched = np.array_equal(S.data, S0.data) and np.array_equal(Hm.data, H0.data) and np.array_equal(E, E0) and np.array_equal(V, V0)
        S, Hm, E, V = S0, H0, E0, V0
        Qs = T.SQRA(E + shift, V, Hm.copy(), S.copy()).get_rate_matrix(D, Tt)
        Qa = T.SQRA(E, V, Hm.copy(), S.copy()).get_rate_matrix(scale * D, Tt)
    Qd, Qsd, Qad = (np.asarray(x.toarray(), dtype=float) for x in (Q, Qs, Qa))
    if Qd.shape != (n, n):
        return [f"shape {Qd.shape}"]
    if not untouched:
        bad.append("inputs_untouched")
    if not np.allclose(np.asarray(Q2.toarray(), dtype=float), Qd, rtol=1e-12, atol=0):
        bad.append("repeat_call")
    R = kB * N_A / 1000
    for i in range(n):
        if not isclose(Qd[i].sum(), 0.0, atol=1e-9 * max(1.0, np.abs(Qd[i]).max())):
            bad.append(f"rowsum[{i}]")
        for j in range(n):
            if not isclose(Qsd[i, j], Qd[i, j]):
                bad.append(f"shift[{i},{j}]")
            if not isclose(Qad[i, j], scale * Qd[i, j]):
                bad.append(f"linear[{i},{j}]")
            if i == j:
                continue
            if (i, j) in sv:
                d = min(E[i] - E[j], 500.0)
                exp_ = D * sv[(i, j)] / (hv[(i, j)] * V[i]) * math.exp(d / (2 * R * Tt))
                if not rel(Qd[i, j], exp_):
                    bad.append(f"formula[{i},{j}]")
                if abs(E[i] - E[j]) < 500 and i < j:
                    l = V[i] * math.exp(-E[i] / (R * Tt)) * Qd[i, j]
                    r = V[j] * math.exp(-E[j] / (R * Tt)) * Qd[j, i]
                    if not rel(l, r):
                        bad.append(f"DB[{i},{j}]")
            elif Qd[i, j] != 0:
                bad.append(f"zero[{i},{j}]")
    return bad


def replay(cex):
    shape = cex["shape"]
    try:
        bad = numeric_violations(shape, *_real_inputs(shape, cex.get("model", {})))
    except RealCodeRaised as e:
        return {"reproduced": True, "detail": f"real code raised {e}"}
    except Exception as e:  # noqa: BLE001 - the harness's own oracle failed on this model (overflow ...): not a verdict about the code
        return {"reproduced": False, "detail": f"oracle could not be evaluated on this model: {e!r}"}
    return {"reproduced": bool(bad), "detail": f"failing on the real function: {bad[:8]}", "inputs": cex.get("model")}


def finding_key(cex):
    return f"C01:{cex['obligation'].split('[')[0]}:n={cex['shape']['n']}"


def selftest(seed):
    n = sparse_selftest(seed, rounds=6)
    return n
