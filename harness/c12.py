"""C12 -- MSM transition matrix is the symmetrised, row-normalised lag-tau count matrix.

Real `window`, `noncorr_window`, `MSM.get_one_tau_transition_matrix` run on a trajectory whose every element is
symbolic: a cell index x_k in {0..n-1} and a NaN flag.  One run covers all n^L * 2^L trajectories of length L.
"""
import itertools
import math

import numpy as np
import z3

from symx.core import Engine, SR, SB, noprint, sym_int, sym_float
from symx.npproxy import NPProxy
from symx.arr import sarr
from symx import sparse as sp
from symx.prove import Prover
from symx.runner import Acc
from symx.selftest import sparse_selftest
from harness.common import real_code, RealCodeRaised, bound, z, fval, isclose

PROPERTY = "C12"
FUNCTIONS = ["molgri.molecules.transitions.window", "molgri.molecules.transitions.noncorr_window",
             "molgri.molecules.transitions.MSM.__init__", "MSM.get_one_tau_transition_matrix", "MSM.get_all_tau_transition_matrices"]
STUBS = ["scipy.sparse.dok_array -> DDok (all n^2 counters kept, symbolic index update = If over all cells)",
         "scipy.sparse.diags -> dense-backed main-diagonal model", "builtins.int -> identity on symbolic values",
         "NaN modelled as a boolean flag next to the value"]
ASSUMPTIONS = ["trajectory entries are NaN or integers in [0, n) (the quantifier excludes out-of-range cells: the real dok raises)",
               "float modelled by the reals"]
OUTSIDE = ["L beyond the bound", "cell indices >= n"]


def bounds(tier):
    if tier == "quick":
        return {"L": "0..6", "n_cells": [1, 2, 3], "tau": [1, 2, 3], "modes": ["sliding", "non-overlapping"], "NaN": "every subset of frames"}
    return {"L": "0..8 for n<=3, 0..6 for n=4", "n_cells": [1, 2, 3, 4], "tau": [1, 2, 3, 4], "modes": ["sliding", "non-overlapping"], "NaN": "every subset of frames"}


def shapes(tier, seed):
    out = []
    Ls = range(0, 7) if tier == "quick" else range(0, 9)
    taus = (1, 2, 3) if tier == "quick" else (1, 2, 3, 4)
    ns = (1, 2, 3) if tier == "quick" else (1, 2, 3, 4)
    for L in Ls:
        for n in ns:
            if n == 4 and L > 6:
                continue
            for tau in taus:
                for noncorr in (False, True):
                    out.append({"L": L, "n": n, "tau": tau, "noncorr": noncorr, "budget": 150 if tier == "quick" else 2400})
    out.sort(key=lambda s: (s["L"] * s["n"], s["L"]))
    return out


def _oracle_counts(L, n, tau, noncorr, xs, nans):
    step = tau if noncorr else 1
    starts = list(range(0, L - tau, step))

    def c(i, j, xs=xs, nans=nans):
        if not starts:
            return z3.IntVal(0)
        return z3.Sum([z3.If(z3.And(z3.Not(nans[k]), z3.Not(nans[k + tau]), xs[k] == i, xs[k + tau] == j), 1, 0) for k in starts])
    return c


class RecDok(sp.DDok):
    """the dok model, remembering every instance so that the harness can cut at the count matrix"""
    made = []

    def __init__(self, shape, dtype=None):
        super().__init__(shape, dtype)
        RecDok.made.append(self)


def _free_names(t, acc=None, seen=None):
    acc = set() if acc is None else acc
    seen = set() if seen is None else seen
    if t.get_id() in seen:
        return acc
    seen.add(t.get_id())
    if z3.is_const(t) and t.decl().kind() == z3.Z3_OP_UNINTERPRETED:
        acc.add(t.decl().name())
    for c_ in t.children():
        _free_names(c_, acc, seen)
    return acc


def run_shape(shape):
    import molgri.molecules.transitions as T
    L, n, tau, noncorr = shape["L"], shape["n"], shape["tau"], shape["noncorr"]
    eng = Engine()
    prover = Prover(timeout_ms=30000, budget_s=shape.get("budget", 150))
    acc = Acc(shape)
    xs = [z3.Real(f"x{k}") for k in range(L)]
    nans = [z3.Bool(f"nan{k}") for k in range(L)]
    pre = [z3.Or([x == c for c in range(n)]) for x in xs]
    eng.assume_global(*pre)

    def body():
        try:
            return body_()
        except sp.LayoutAccess as e:
            return ("LAYOUT", str(e))

    def body_():
        RecDok.made = []
        with bound(T, dok_array=RecDok, diags=sp.ddiags, int=sym_int, print=noprint, coo_array=sp.DCoo, csr_array=sp.DCsr, csc_array=sp.DCsc, coo_matrix=sp.DCoo, csr_matrix=sp.DCsr, csc_matrix=sp.DCsc, np=NPProxy(), float=sym_float):
            traj = sarr([SR(x, nan=b) for x, b in zip(xs, nans)]) if L else np.zeros(0, dtype=object).view(type(sarr([0])))
            # another MSM of the same process (other trajectory, same number of cells, same lag and mode) is evaluated first
            decoy = np.array([float((3 * k + 1) % n) for k in range(L + 2)])
            T.MSM(decoy, n).get_one_tau_transition_matrix(tau, noncorr)
            T.MSM(decoy, n).get_one_tau_transition_matrix(tau, not noncorr)
            RecDok.made = []
            M = T.MSM(traj, n).get_one_tau_transition_matrix(tau, noncorr)
            Mr = None
            if not noncorr:
                Mr = T.MSM(traj[::-1].copy(), n).get_one_tau_transition_matrix(tau, noncorr)
            doks = [d._M.copy() for d in RecDok.made]
            # history on one object: the other mode first, then this one, then this one again, then through the all-taus helper
            obj = T.MSM(traj, n)
            obj.get_one_tau_transition_matrix(tau, not noncorr)
            H1 = obj.get_one_tau_transition_matrix(tau, noncorr)
            H2 = obj.get_one_tau_transition_matrix(tau, noncorr)
            H3 = obj.get_all_tau_transition_matrices(np.array([tau]), noncorrelated_windows=noncorr)[0]
        return M, Mr, doks, (H1, H2, H3)

    c = _oracle_counts(L, n, tau, noncorr, xs, nans)
    K = [[z3.ToReal(z3.Int(f"k{a}_{b}")) for b in range(n)] for a in range(n)]   # fresh (integer-valued) count variables for the cut
    for path in eng.explore(body):
        acc.begin(prover, path)
        if path.kind == "exc":
            acc.structural("no_exception", False, detail=repr(path.value) + (path.tb or "")[-500:],
                           cex={"kind": "exception", "exc": type(path.value).__name__})
            continue
        if isinstance(path.value, tuple) and len(path.value) == 2 and isinstance(path.value[0], str) and path.value[0] == "LAYOUT":
            # the code reads the CSR buffers of a matrix whose sparsity pattern depends on the (symbolic) trajectory: this model keeps no
            # layout for such a matrix, so the path is undecided -- reported as inconclusive, never as held
            acc.obligations += 1
            acc.inconclusive.append({"obligation": "transition_matrix", "solver": "none", "note": "storage-layout access on a pattern-abstract matrix: " + path.value[1][:120]})
            continue
        M, Mr, doks, hist = path.value
        prem = path.premises
        if acc.reachable is not True:
            acc.reach(prover.satisfiable(prem))
        acc.structural("shape", tuple(M.shape) == (n, n), detail=M.shape)
        A = M.toarray()
        Ar = Mr.toarray() if Mr is not None else None

        def final_claims(A, Ar, cnt, s_of):
            """the property, written on output entries A; cnt(i,j) = c_ij + c_ji and s_of(i) its row sum (as reals)"""
            out = []
            for i in range(n):
                s_i = s_of(i)
                rowsum = z3.Sum([z(A[i, j]) for j in range(n)])
                out.append((f"rowsum[{i}]", z3.If(s_i == 0, rowsum == 0, rowsum == 1)))
                for j in range(n):
                    a = z(A[i, j])
                    out.append((f"T[{i},{j}]", z3.If(s_i == 0, a == 0, a * s_i == cnt(i, j))))
                    out.append((f"range[{i},{j}]", z3.And(a >= 0, a <= 1)))
                    if i < j:
                        out.append((f"balance[{i},{j}]", s_i * a == s_of(j) * z(A[j, i])))
                    if Ar is not None:
                        out.append((f"reversal[{i},{j}]", z(Ar[i, j]) == a))
            return out

        hclaims = [(f"same_object_history[{hn},{i},{j}]", z(Hm.toarray()[i, j]) == z(A[i, j])) for hn, Hm in enumerate(hist) for i in range(n) for j in range(n)]
        acc.add(prover.prove_all(prem, hclaims), make_cex=lambda r_: {})
        oc = lambda i, j: z3.ToReal(c(i, j) + c(j, i))
        os_ = lambda i: z3.Sum([oc(i, k) for k in range(n)])
        direct = final_claims(A, Ar, oc, os_)
        cut_ok = len(doks) == (2 if Mr is not None else 1) and all(d.shape == (n, n) for d in doks)
        if cut_ok:
            # stage 1 (guarantee of the counting loop): the count matrix equals the symmetrised window count
            st1 = []
            for a in range(n):
                for b in range(n):
                    st1.append((f"count[{a},{b}]", z(doks[0][a, b]) == oc(a, b)))
                    if Mr is not None:
                        st1.append((f"count_reversed[{a},{b}]", z(doks[1][a, b]) == z(doks[0][a, b])))
            r1 = prover.prove_all(prem, st1)
            acc.add(r1)
            cut_ok = all(r.verdict == "proved" for r in r1)
        if cut_ok:
            # stage 2 (assume): continue on fresh variables k_ab constrained by exactly the facts stage 1 gives
            subs = []
            for d in doks:
                for a in range(n):
                    for b in range(n):
                        t = z(d[a, b])
                        if not z3.is_rational_value(t):
                            subs.append((t, K[a][b]))
            sub = lambda t: z3.substitute(t, *subs) if subs else t
            A2 = np.empty((n, n), dtype=object)
            Ar2 = np.empty((n, n), dtype=object) if Ar is not None else None
            for i in range(n):
                for j in range(n):
                    A2[i, j] = SR(sub(z(A[i, j])))
                    if Ar is not None:
                        Ar2[i, j] = SR(sub(z(Ar[i, j])))
            zero_cells = [(a, b) for a in range(n) for b in range(n) if z3.is_rational_value(z(doks[0][a, b]))]
            leftover = set()
            for i in range(n):
                for j in range(n):
                    leftover |= {v for v in _free_names(z(A2[i, j])) if not v.startswith("k")}
            if leftover:
                cut_ok = False
            else:
                facts = [K[a][b] >= 0 for a in range(n) for b in range(n)] + \
                        [K[a][b] == K[b][a] for a in range(n) for b in range(a + 1, n)] + \
                        [K[a][b] == z(doks[0][a, b]) for (a, b) in zero_cells]
                kc = lambda i, j: K[i][j]
                ks = lambda i: z3.Sum([K[i][k] for k in range(n)])
                r2 = prover.prove_all(facts, final_claims(A2, Ar2, kc, ks))
                bad2 = [r for r in r2 if r.verdict != "proved"]
                if not bad2:
                    acc.add(r2)
                    acc.extra["cut_paths"] = acc.extra.get("cut_paths", 0) + 1
                    continue
                cut_ok = False
        # no cut possible (or it failed): discharge the property directly on the trajectory variables
        acc.extra["direct_paths"] = acc.extra.get("direct_paths", 0) + 1
        acc.add(prover.prove_all(prem, direct, timeout_ms=20000))
    return acc.result(eng.stats, prover.stats)


# ------------------------------------------------------------------------------------------ replay on the real code
def reference_matrix(traj, n, tau, noncorr):
    """independent oracle written from the property statement"""
    L = len(traj)
    step = tau if noncorr else 1
    C = np.zeros((n, n))
    for k in range(0, L - tau, step):
        a, b = traj[k], traj[k + tau]
        if not (math.isnan(a) or math.isnan(b)):
            C[int(a), int(b)] += 1
    S = C + C.T
    out = np.zeros((n, n))
    for i in range(n):
        if S[i].sum() > 0:
            out[i] = S[i] / S[i].sum()
    return out, S


def numeric_violations(shape, traj):
    import contextlib, io
    import molgri.molecules.transitions as T
    L, n, tau, noncorr = shape["L"], shape["n"], shape["tau"], shape["noncorr"]
    with contextlib.redirect_stdout(io.StringIO()), real_code():
        decoy = np.array([float((3 * k + 1) % n) for k in range(L + 2)])      # the same history as the symbolic run: another MSM first
        T.MSM(decoy, n).get_one_tau_transition_matrix(tau, noncorr)
        T.MSM(decoy, n).get_one_tau_transition_matrix(tau, not noncorr)
        M = T.MSM(np.array(traj, dtype=float), n).get_one_tau_transition_matrix(tau, noncorr)
        Mr = T.MSM(np.array(traj[::-1], dtype=float), n).get_one_tau_transition_matrix(tau, noncorr)
        obj = T.MSM(np.array(traj, dtype=float), n)
        obj.get_one_tau_transition_matrix(tau, not noncorr)
        hist = [obj.get_one_tau_transition_matrix(tau, noncorr), obj.get_one_tau_transition_matrix(tau, noncorr),
                obj.get_all_tau_transition_matrices(np.array([tau]), noncorrelated_windows=noncorr)[0]]
    A = np.asarray(M.toarray(), dtype=float)
    ref, S = reference_matrix(traj, n, tau, noncorr)
    bad = []
    if A.shape != (n, n):
        return [f"shape {A.shape}"]
    for hn, Hm in enumerate(hist):
        if not np.allclose(np.asarray(Hm.toarray(), dtype=float), ref, rtol=1e-12, atol=1e-15):
            bad.append(f"same_object_history[{hn}]")
    for i in range(n):
        for j in range(n):
            if not isclose(A[i, j], ref[i, j]):
                bad.append(f"T[{i},{j}]")
            if not noncorr and not isclose(np.asarray(Mr.toarray())[i, j], A[i, j]):
                bad.append(f"reversal[{i},{j}]")
    return bad


def _traj(shape, model):
    out = []
    for k in range(shape["L"]):
        if model.get(f"nan{k}") is True:
            out.append(float("nan"))
        else:
            out.append(float(fval(model, f"x{k}", 0.0)))
    return out


def replay(cex):
    shape = cex["shape"]
    traj = _traj(shape, cex.get("model", {}))
    try:
        bad = numeric_violations(shape, traj)
    except RealCodeRaised as e:
        return {"reproduced": True, "detail": f"real code raised {e}", "trajectory": str(traj)}
    except Exception as e:  # noqa: BLE001 - the harness's own oracle failed on this model (overflow ...): not a verdict about the code
        return {"reproduced": False, "detail": f"oracle could not be evaluated on this model: {e!r}", "trajectory": str(traj)}
    return {"reproduced": bool(bad), "detail": f"trajectory {traj}: failing on the real function: {bad[:8]}"}


def finding_key(cex):
    s = cex["shape"]
    return f"C12:{cex['obligation'].split('[')[0]}:L={s['L']}:tau={s['tau']}:noncorr={s['noncorr']}"


def selftest(seed):
    return sparse_selftest(seed, rounds=4)
