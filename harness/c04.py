"""C04 -- rotation-grid neighbour relations are correct on SO(3) = S^3 modulo sign (Qhull stubbed).

Three harness families:
  fold      real HalfRotobjVoronoi._calculate_N_N_array (antipode fold + upper extraction) on a full-sphere matrix over
            [G; -G] that is ARBITRARY within its contract: non-negative, symmetric, empty diagonal, no cell adjacent to its
            own antipode, invariant under the antipodal index map; the adjacency PATTERN is symbolic (every pattern).
  assembly  real AbstractVoronoi._calculate_N_N_array on region lists with symbolic border / distance values
            (discharges the symmetry / empty-diagonal / common-pattern part of the contract the fold harness assumes).
  distance  real distance_between_quaternions / angle_between_vectors on symbolic quaternions: sign-folded geodesic angle.
"""
import itertools

import numpy as np
import z3

from symx.core import Engine, SR, SB, noprint, uf_acos, acos_facts, PI
from symx.arr import sarr
from symx import sparse as sp
from symx.npproxy import NPProxy
from symx.prove import Prover
from symx.runner import Acc
from symx.selftest import sparse_selftest
from harness.common import bypass_guard, bound, z, fval, isclose
from harness import fgstub

PROPERTY = "C04"
FUNCTIONS = ["molgri.space.rotobj.SphereGridNDim.gen_grid (choice of the cell model)", "molgri.space.voronoi.AbstractVoronoi.get_reduced_vertices_regions", "molgri.space.voronoi.RotobjVoronoi._calculate_center_distances (4D)", "molgri.space.voronoi.HalfRotobjVoronoi._calculate_N_N_array", "HalfRotobjVoronoi._get_upper_indices",
             "molgri.space.voronoi.AbstractVoronoi._calculate_N_N_array", "AbstractVoronoi.get_all_voronoi_regions/get_dim",
             "molgri.space.utils.which_row_is_k", "utils.q_in_upper_sphere", "utils.distance_between_quaternions",
             "utils.angle_between_vectors", "utils.normalise_vectors", "utils.norm_per_axis"]
STUBS = ["full-sphere Voronoi matrix (Qhull regions + SVD face areas) -> arbitrary matrix within the contract: A>=0, A=A^T, A_ii=0, "
         "A_{i,opp i}=0, A_ij=A_{opp i,opp j}; pattern symbolic, values symbolic positive",
         "region lists of the assembly harness: seeded concrete vertex-index sets; border/distance callbacks return symbolic values",
         "scipy.sparse.coo_array -> exact-order model; arccos -> uninterpreted function with range/monotonicity/reflection axioms; "
         "sqrt -> fresh variable r>=0, r^2=x"]
ASSUMPTIONS = ["the grid is [G; -G] with G in the canonical half (verified for the generators' glue under C07)",
               "antipodal invariance of the full-sphere matrices (confirmed on real cube4D/randomQ grids N=4..40 in DESIGN §4)",
               "float modelled by the reals"]
OUTSIDE = ["that Qhull's regions are the true nearest-neighbour regions", "face areas (SVD + Girard sum)", "N beyond the bound"]


STUBS += ["the contract of the compiled geometry assumed by the stand-ins (no exception, one symmetric pattern, positive areas / distances) is re-checked "
          "on ten small real rotation grids on every run (deferred harness error if broken)"]

def bounds(tier):
    return {"fold_N": [2, 3] + ([4] if tier == "thorough" else ["4 (seeded sub-family of patterns)"]), "fold_patterns": "all antipodally invariant patterns",
            "assembly": "n<=5 cells, dim 3 and 4, seeded region lists + complete + empty", "distance": "one pair of symbolic quaternions"}


def _orbits(N):
    n2 = 2 * N
    opp = lambda i: (i + N) % n2
    orb = {}
    order = []
    for i in range(n2):
        for j in range(i + 1, n2):
            if j == opp(i):
                continue
            k = min(tuple(sorted((i, j))), tuple(sorted((opp(i), opp(j)))))
            if k not in order:
                order.append(k)
            orb[(i, j)] = orb[(j, i)] = k
    return orb, order


def shapes(tier, seed):
    out = []
    for N in (2, 3):
        for gs in (0, 1):
            out.append({"kind": "fold", "N": N, "gseed": seed * 10 + gs, "fixed": {}})
    _, order = _orbits(4)
    k = 6 if tier == "thorough" else 7      # thorough: all 4096 patterns of N=4 as 64 sub-shapes of 64 paths
    rng = np.random.default_rng(seed)
    combos = list(itertools.product((False, True), repeat=k))
    if tier == "quick":
        combos = [combos[0], combos[-1]] + [combos[int(i)] for i in rng.choice(len(combos), size=14, replace=False)]
    for bits in combos:
        out.append({"kind": "fold", "N": 4, "gseed": seed, "fixed": {str(i): bool(b) for i, b in enumerate(bits)}})
    for dim in (3, 4):
        for n in (2, 3, 4, 5):
            for rs in range(3 if tier == "quick" else 8):
                out.append({"kind": "assembly", "dim": dim, "n": n, "rseed": seed * 100 + rs})
    # the fold applied to the REAL pair loop (not to a stand-in for it): half grid over a full-sphere object whose regions are given
    for N in (2, 3):
        for rs in (0, 2, 3):
            out.append({"kind": "compose", "dim": 4, "N": N, "rseed": seed * 100 + rs})
    for dim in (3, 4):
        for m in ((2, 3) if tier == "quick" else (2, 3, 4)):
            out.append({"kind": "reduce", "dim": dim, "m": m})
        for N in (1, 2, 3, 4, 5, 6):
            out.append({"kind": "cell_model", "dim": dim, "N": N})
    out.append({"kind": "distance", "via": "utils"})
    out.append({"kind": "distance", "via": "voronoi"})
    out.sort(key=lambda s: (s.get("N", 0), s.get("n", 0)))
    return out


def gen_G(N, gseed):
    """N generic unit quaternions in the canonical half; one of them with a zero first coordinate"""
    rng = np.random.default_rng(1000 + gseed)
    G = rng.normal(size=(N, 4))
    G[:, 0] = np.abs(G[:, 0]) + 0.1
    if gseed % 2 == 1 and N >= 2:
        G[1, 0] = 0.0
        G[1, 1] = abs(G[1, 1]) + 0.1
    return G / np.linalg.norm(G, axis=1)[:, None]


def run_shape(shape):
    return {"compose": run_compose, "fold": run_fold, "assembly": run_assembly, "distance": run_distance, "reduce": run_reduce, "cell_model": run_cell_model}[shape["kind"]](shape)


# ------------------------------------------------------------------------------------------------------ which cell model
def run_cell_model(shape):
    """'For every rotation grid with at least four points' the relations come from the Voronoi cells: the real SphereGridNDim.gen_grid
    must hand a grid of N >= 4 points to the (half-)sphere Voronoi class and only smaller grids to the estimated model.  The Voronoi
    classes are markers here (their constructors are Qhull); N is a case, the grid rows are generic concrete unit vectors."""
    import molgri.space.rotobj as RO
    dim, N = shape["dim"], shape["N"]
    eng = Engine()
    prover = Prover(timeout_ms=5000, budget_s=60)
    acc = Acc(shape)
    rng = np.random.default_rng(40 + N)
    G = np.abs(rng.normal(size=(N, dim))) + 0.1
    G /= np.linalg.norm(G, axis=1)[:, None]

    class MarkHalf:
        def __init__(self, *a, **k):
            pass

    class MarkFull:
        def __init__(self, *a, **k):
            pass

    def body():
        with bound(RO, print=noprint, HalfRotobjVoronoi=MarkHalf, RotobjVoronoi=MarkFull):
            base = RO.SphereGrid4Dim if dim == 4 else RO.SphereGrid3Dim

            class Gen(base):
                algorithm_name = "cube4D" if dim == 4 else "ico"

                def _gen_grid(self):
                    if dim == 4:
                        self.grid = G.copy()
                        return super()._gen_grid()
                    return G.copy()
            g = Gen(N=N)
            g.gen_grid()
            return type(g.get_spherical_voronoi()).__name__

    expected = ("MarkHalf" if dim == 4 else "MarkFull") if N >= 4 else "MikroVoronoi"
    for path in eng.explore(body):
        acc.begin(prover, path)
        acc.reach("sat")
        if path.kind == "exc":
            acc.structural("no_exception", False, detail=repr(path.value) + (path.tb or "")[-500:], cex={"kind": "exception", "exc": type(path.value).__name__})
            continue
        acc.structural("voronoi_cells_for_four_or_more_points", path.value == expected, detail={"N": N, "dim": dim, "cell_model": path.value, "expected": expected})
    return acc.result(eng.stats, prover.stats)


def replay_cell_model(cex):
    import contextlib, io
    import molgri.space.rotobj as RO
    s = cex["shape"]
    dim, N = s["dim"], s["N"]
    with contextlib.redirect_stdout(io.StringIO()):
        try:     # public API, real Qhull
            g = (RO.SphereGrid4DFactory if dim == 4 else RO.SphereGrid3DFactory).create("cube4D" if dim == 4 else "ico", N)
            got = type(g.get_spherical_voronoi()).__name__
        except Exception as e:  # noqa: BLE001
            return {"reproduced": True, "detail": f"create(N={N}) raised {e!r}"}
    expected = ("HalfRotobjVoronoi" if dim == 4 else "RotobjVoronoi") if N >= 4 else "MikroVoronoi"
    return {"reproduced": got != expected, "detail": f"{'cube4D' if dim == 4 else 'ico'} grid with N={N}: cell model {got}, expected {expected}"}



# ------------------------------------------------------------------------------------------------------ vertex reduction
def run_reduce(shape):
    """real AbstractVoronoi.get_reduced_vertices_regions + which_row_is_k on SYMBOLIC vertex coordinates: any two vertices are either
    exactly equal or clearly apart (the solver decides which, every duplicate structure is a path).  The reduced vertex list must be
    the distinct vertices in order of first appearance and every region index must be re-mapped to the SAME geometric vertex --
    adjacency counts shared reduced vertices, so a re-indexing slip changes neighbours silently."""
    import molgri.space.voronoi as Vm
    import molgri.space.utils as U
    dim, m = shape["dim"], shape["m"]
    V = [[z3.Real(f"v{i}_{c}") for c in range(dim)] for i in range(m)]
    eng = Engine()
    prover = Prover(timeout_ms=10000, budget_s=300)
    acc = Acc(shape)
    big = z3.RealVal("1/100")
    for i in range(m):
        for c in range(dim):
            eng.assume_global(V[i][c] >= -2, V[i][c] <= 2)
        for j in range(i + 1, m):
            same = z3.And([V[i][c] == V[j][c] for c in range(dim)])
            apart = z3.Or([z3.Or(V[i][c] - V[j][c] > big, V[j][c] - V[i][c] > big) for c in range(dim)])
            eng.assume_global(z3.Or(same, apart))
    proxy = NPProxy()
    regions = [[i] for i in range(m)] + [list(range(m))[::-1]]

    class Vor(Vm.AbstractVoronoi):
        def __init__(self):
            self.vertices = sarr([[SR(x) for x in row] for row in V])
            self.regions = regions

        def _create_centers_vertices_regions(self):
            return None

    def body():
        with bound(Vm, np=proxy, print=noprint), bound(U, np=proxy, print=noprint):
            return Vor().get_reduced_vertices_regions()

    for path in eng.explore(body):
        acc.begin(prover, path)
        if path.kind == "exc":
            bypass_guard(path.value)
            acc.structural("no_exception", False, detail=repr(path.value) + (path.tb or "")[-600:], cex={"kind": "exception", "exc": type(path.value).__name__, "model": _model(path)})
            continue
        if acc.reachable is not True:
            acc.reach(prover.satisfiable(path.premises))
        newv, newr = path.value
        mm = _model(path)
        k = len(newv)
        o2n = [int(r[0]) for r in newr[:m]]
        ok = len(newr) == len(regions) and all(len(a) == len(b) for a, b in zip(newr, regions)) and all(0 <= x < k for x in o2n) and [int(x) for x in newr[m]] == o2n[::-1]
        acc.structural("regions_reindexed_consistently", ok, detail={"new_regions": [[int(x) for x in r] for r in newr], "n_new_vertices": k}, cex={"model": mm})
        if not ok:
            continue
        first_seen = []
        for x in o2n:
            if x not in first_seen:
                first_seen.append(x)
        acc.structural("order_of_first_appearance_kept", first_seen == list(range(k)), detail=o2n, cex={"model": mm})
        claims = []
        for i in range(m):
            for c in range(dim):
                claims.append((f"same_geometric_vertex[{i},{c}]", z(newv[o2n[i]][c]) == V[i][c]))
        for a in range(k):
            for b in range(a + 1, k):
                claims.append((f"reduced_vertices_distinct[{a},{b}]", z3.Or([z(newv[a][c]) != z(newv[b][c]) for c in range(dim)])))
        acc.add(prover.prove_all(path.premises, claims), make_cex=lambda r_: {})
    return acc.result(eng.stats, prover.stats)


def replay_reduce(cex):
    import itertools as it
    import molgri.space.voronoi as Vm
    s = cex["shape"]
    dim, m = s["dim"], s["m"]
    model = cex.get("model", {}) or {}
    rng = np.random.default_rng(8)
    bad = []
    cands = []
    mv = np.array([[fval(model, f"v{i}_{c}", None) if fval(model, f"v{i}_{c}", None) is not None else float(rng.uniform(-1, 1)) for c in range(dim)] for i in range(m)])
    cands.append(mv)
    base = rng.uniform(-1, 1, size=(m, dim))
    for labels in it.product(range(m), repeat=m):       # every duplicate structure
        cands.append(np.array([base[l] for l in labels]))
    regions = [[i] for i in range(m)] + [list(range(m))[::-1]]
    for Vc in cands:
        class Vor(Vm.AbstractVoronoi):
            def __init__(self):
                self.vertices = Vc.copy()
                self.regions = regions

            def _create_centers_vertices_regions(self):
                return None
        try:
            newv, newr = Vor().get_reduced_vertices_regions()
        except Exception as e:  # noqa: BLE001
            bad.append(f"vertices {Vc.tolist()}: raised {e!r}")
            continue
        o2n = [int(r[0]) for r in newr[:m]]
        distinct = []
        for row in Vc:
            if not any(np.array_equal(row, d) for d in distinct):
                distinct.append(row)
        if len(newv) != len(distinct) or any(not np.array_equal(newv[o2n[i]], Vc[i]) for i in range(m)) or [int(x) for x in newr[m]] != o2n[::-1] \
                or any(not np.array_equal(a, b) for a, b in zip(newv, distinct)):
            bad.append(f"vertices {Vc.tolist()}: reduced to {np.asarray(newv).tolist()} with index map {o2n}")
    return {"reproduced": bool(bad), "detail": str(bad[:2])}



# ------------------------------------------------------------------------------------------------------ fold
def run_fold(shape):
    import molgri.space.voronoi as Vm
    N = shape["N"]
    n2 = 2 * N
    opp = lambda i: (i + N) % n2
    G = gen_G(N, shape["gseed"])
    full = np.vstack([G, -G])
    orb, order = _orbits(N)
    pat = {k: z3.Bool("adj_%d_%d" % k) for k in order}
    val = {p: {k: z3.Real(f"{p[0]}_%d_%d" % k) for k in order} for p in ("border_len", "center_distances")}
    eng = Engine()
    prover = Prover(timeout_ms=10000, budget_s=900)
    acc = Acc(shape)
    allv = [v for p in val for v in val[p].values()]
    eng.assume_global(*[v > 0 for v in allv])
    for v in allv:
        eng.declare_sign(v, "+")
    for i, b in shape["fixed"].items():
        eng.assume_global(pat[order[int(i)]] if b else z3.Not(pat[order[int(i)]]))
    proxy = NPProxy()

    class FullStub:
        def _calculate_N_N_array(self, sel_property="adjacency", **k):
            M = np.zeros((n2, n2), dtype=object)
            M[...] = False if sel_property == "adjacency" else 0.0
            for i in range(n2):
                for j in range(n2):
                    if i == j or j == opp(i):
                        continue
                    kk = orb[(i, j)]
                    if bool(SB(pat[kk])):
                        M[i, j] = True if sel_property == "adjacency" else SR(val[sel_property][kk])
            return sp.coo_array(M)

    class SV:
        points = full

    def A(prop, i, j):
        """the stub's full-sphere entry as a z3 real term"""
        if i == j or j == opp(i):
            return z3.RealVal(0)
        kk = orb[(i, j)]
        return z3.If(pat[kk], z3.RealVal(1) if prop == "adjacency" else val[prop][kk], z3.RealVal(0))

    def body():
        out = {}
        with bound(Vm, coo_array=sp.coo_array, print=noprint, np=proxy):
            h = fgstub.make_half_voronoi(Vm, N, full[:N], FullStub())     # the real __init__ chain runs (Qhull replaced by a stand-in)
            for prop in ("adjacency", "border_len", "center_distances"):
                out[prop] = h._calculate_N_N_array(sel_property=prop)
            out["nofold"] = h._calculate_N_N_array(sel_property="border_len", include_opposing_neighbours=False)
            # history on the same object: the caller rescales, in place, the matrices it was handed (unit conversion, prefactors ...) and
            # asks again -- the answers must still be the folded matrices
            snap = {p: (list(M.row), list(M.col), list(M.data)) for p, M in out.items()}
            for p in ("border_len", "center_distances", "nofold"):
                if len(out[p].data):
                    out[p].data *= 3
            again = {prop: h._calculate_N_N_array(sel_property=prop) for prop in ("adjacency", "border_len", "center_distances")}
            again["nofold"] = h._calculate_N_N_array(sel_property="border_len", include_opposing_neighbours=False)
            for p, (r_, c_, d_) in snap.items():      # hand the first answers on as they were
                out[p] = sp.coo_array((sarr(d_) if d_ else np.zeros(0, dtype=object), (r_, c_)), shape=out[p].shape)
            out["again"] = again
        return out

    for path in eng.explore(body):
        acc.begin(prover, path)
        cexinfo = {"gseed": shape["gseed"]}
        if path.kind == "exc":
            if fgstub.BYPASSED:
                bypass_guard(path.value)
            acc.structural("no_exception", False, detail=repr(path.value) + (path.tb or "")[-500:], cex=dict(cexinfo, kind="exception", exc=type(path.value).__name__, model=_model(path)))
            continue
        if acc.reachable is not True:
            acc.reach(prover.satisfiable(path.premises))
        R = dict(path.value)
        again = R.pop("again")
        m = None
        shapes_ok = all(tuple(R[p].shape) == (N, N) for p in R) and all(tuple(again[p].shape) == (N, N) for p in again)
        acc.structural("result_is_NxN", shapes_ok, detail={p: tuple(R[p].shape) for p in R}, cex=dict(cexinfo, model=_model(path)))
        if not shapes_ok:
            continue
        pats = {p: (list(R[p].row), list(R[p].col)) for p in ("adjacency", "border_len", "center_distances")}
        same = pats["adjacency"] == pats["border_len"] == pats["center_distances"]
        acc.structural("one_pattern_for_three_properties", same, detail=pats, cex=dict(cexinfo, model=_model(path)))
        claims = []
        for prop in ("adjacency", "border_len", "center_distances"):
            Fm = R[prop].toarray()
            for i in range(N):
                claims.append((f"diag[{prop},{i}]", z(Fm[i, i]) == 0))
                for j in range(N):
                    if i == j:
                        continue
                    if i < j:
                        claims.append((f"sym[{prop},{i},{j}]", z(Fm[i, j]) == z(Fm[j, i])))
                    a, b = A(prop, i, j), A(prop, i, opp(j))
                    claims.append((f"fold[{prop},{i},{j}]", z(Fm[i, j]) == z3.If(a != 0, a, b)))
        Fn = R["nofold"].toarray()
        for i in range(N):
            for j in range(N):
                claims.append((f"nofold[{i},{j}]", z(Fn[i, j]) == A("border_len", i, j)))
        for prop in ("adjacency", "border_len", "center_distances", "nofold"):
            F1, F2 = R[prop].toarray(), again[prop].toarray()
            for i in range(N):
                for j in range(N):
                    claims.append((f"same_answer_after_the_caller_rescaled_the_first[{prop},{i},{j}]", z(F2[i, j]) == z(F1[i, j])))
        acc.add(prover.prove_all(path.premises, claims), make_cex=lambda r, c=cexinfo: dict(c))
    return acc.result(eng.stats, prover.stats)


def _model(path):
    s = z3.Solver()
    s.set("timeout", 3000)
    s.add(*path.premises)
    if s.check() == z3.sat:
        from symx.prove import model_to_dict
        return {k: (str(v) if not isinstance(v, bool) else v) for k, v in model_to_dict(s.model()).items()}
    return {}


def replay_fold(cex):
    import contextlib, io
    import scipy.sparse as rsp
    import molgri.space.voronoi as Vm
    shape = cex["shape"]
    N = shape["N"]
    n2 = 2 * N
    opp = lambda i: (i + N) % n2
    model = cex.get("model", {}) or {}
    G = gen_G(N, shape["gseed"])
    full = np.vstack([G, -G])
    orb, order = _orbits(N)
    fixed = {order[int(i)]: b for i, b in shape["fixed"].items()}

    def present(k):
        v = model.get("adj_%d_%d" % k)
        if k in fixed:
            return fixed[k]
        return bool(v) if isinstance(v, bool) else False

    def value(prop, k):
        return fval(model, f"{prop[0]}_%d_%d" % k, 1.0 + 0.1 * k[0] + 0.01 * k[1])

    class FullStub:
        def _calculate_N_N_array(self, sel_property="adjacency", **kw):
            M = np.zeros((n2, n2), dtype=bool if sel_property == "adjacency" else float)
            for i in range(n2):
                for j in range(n2):
                    if i == j or j == opp(i):
                        continue
                    kk = orb[(i, j)]
                    if present(kk):
                        M[i, j] = True if sel_property == "adjacency" else value(sel_property, kk)
            return rsp.coo_array(M)

    class SV:
        points = full
    h = fgstub.make_half_voronoi(Vm, N, G, FullStub())
    bad = []
    mats = {}
    try:
        with contextlib.redirect_stdout(io.StringIO()):
            for prop in ("adjacency", "border_len", "center_distances"):
                mats[prop] = h._calculate_N_N_array(sel_property=prop)
            # the same history as the symbolic run: the caller rescales what it got, asks again, and the second answers are judged as well
            firstd = {p: np.asarray(M.toarray(), dtype=float).copy() for p, M in mats.items()}
            for p in ("border_len", "center_distances"):
                if mats[p].nnz:
                    mats[p].data *= 3
            for prop in ("adjacency", "border_len", "center_distances"):
                mats[prop] = h._calculate_N_N_array(sel_property=prop)
                if not np.allclose(np.asarray(mats[prop].toarray(), dtype=float), firstd[prop]):
                    bad.append(f"same_answer_after_the_caller_rescaled_the_first[{prop}]")
    except Exception as e:  # noqa: BLE001
        return {"reproduced": True, "detail": f"fold raised {e!r}"}
    for prop, Mx in mats.items():
        Fm = np.asarray(Mx.toarray(), dtype=float)
        Afull = np.asarray(FullStub()._calculate_N_N_array(prop).toarray(), dtype=float)
        if Fm.shape != (N, N):
            bad.append(f"{prop}: shape {Fm.shape}")
            continue
        for i in range(N):
            if Fm[i, i] != 0:
                bad.append(f"diag[{prop},{i}]")
            for j in range(N):
                if i != j:
                    exp = Afull[i, j] if Afull[i, j] != 0 else Afull[i, opp(j)]
                    if not isclose(Fm[i, j], exp):
                        bad.append(f"fold[{prop},{i},{j}] got {Fm[i, j]} expected {exp}")
                    if i < j and not isclose(Fm[i, j], Fm[j, i]):
                        bad.append(f"sym[{prop},{i},{j}] {Fm[i, j]} != {Fm[j, i]}")
    pats = [(list(mats[p].row), list(mats[p].col)) for p in mats]
    if not (pats[0] == pats[1] == pats[2]):
        bad.append("patterns of the three properties differ")
    with contextlib.redirect_stdout(io.StringIO()):
        Fn = np.asarray(h._calculate_N_N_array(sel_property="border_len", include_opposing_neighbours=False).toarray(), dtype=float)
    An = np.asarray(FullStub()._calculate_N_N_array("border_len").toarray(), dtype=float)
    if Fn.shape != (N, N) or not np.allclose(Fn, An[:N, :N]):
        bad.append("nofold: include_opposing_neighbours=False is not the upper-left block")
    pres = {("%d_%d" % k): present(k) for k in order}
    return {"reproduced": bool(bad), "detail": f"full-sphere pattern (orbit: present) {pres}: {bad[:6]}"}


# ------------------------------------------------------------------------------------------------------ assembly
def _regions(dim, n, rseed):
    """vertex-index sets per cell; rseed 0 = all pairs share dim-1 vertices, 1 = none, else seeded"""
    rng = np.random.default_rng(rseed)
    mode = rseed % 100
    if mode == 0:
        return [list(range(dim - 1)) + [100 + i] for i in range(n)]
    if mode == 1:
        return [[10 * i + k for k in range(dim)] for i in range(n)]
    nv = n + dim
    return [sorted(set(int(x) for x in rng.choice(nv, size=int(rng.integers(dim - 1, dim + 2)), replace=False))) for _ in range(n)]


def _assembly_centers(dim, n):
    """cell centres of the assembly shapes: unit vectors; in 4-D the double cover [G; -G] (for every pair either it or its antipodal twin is
    more than a quarter turn apart -- a pre-selection of candidate pairs by the angle between centres must not lose a neighbour)"""
    rng = np.random.default_rng(77 + 10 * dim + n)
    if dim == 4 and n % 2 == 0:
        G = gen_G(n // 2, 0)
        return np.vstack([G, -G])
    c = rng.normal(size=(n, dim))
    return c / np.linalg.norm(c, axis=1)[:, None]


def _assembly_base(Vm, dim):
    """the pair loop is inherited from the rotation-grid class (whatever it overrides takes part)"""
    return Vm.RotobjVoronoi


def _assembly_object(Vm, V, centers, regions):
    """an instance of V (a subclass of RotobjVoronoi with stand-in geometry callbacks) built by the REAL constructor chain: Qhull's
    SphericalVoronoi is replaced by a stand-in that hands out the centres, generic distinct vertices and the region lists of the shape"""
    nv = 1 + max([k for reg in regions for k in reg] + [0])

    class SV(fgstub.SVStub):
        def __init__(self, points, radius=1, center=None, threshold=1e-06):
            super().__init__(points, radius=radius, center=center, threshold=threshold)
            rng = np.random.default_rng(991 + nv)
            v = rng.normal(size=(nv, self.points.shape[1]))
            self.vertices = v / np.linalg.norm(v, axis=1)[:, None]
            self.regions = [list(r_) for r_ in regions]
    try:
        with bound(Vm, SphericalVoronoi=SV, np=np, print=noprint):
            return V(centers.copy(), using_detailed_grid=False)
    except Exception as e:  # noqa: BLE001
        fgstub.BYPASSED.append(f"RotobjVoronoi.__init__ (assembly): {type(e).__name__}: {e}")
        v = object.__new__(V)
        v.reduced_regions = regions
        v.regions = regions
        v.centers = centers.copy()
        v.my_array = centers.copy()
        return v


def run_assembly(shape):
    import molgri.space.voronoi as Vm
    dim, n = shape["dim"], shape["n"]
    regions = _regions(dim, n, shape["rseed"])
    centers = _assembly_centers(dim, n)
    eng = Engine()
    prover = Prover(timeout_ms=10000, budget_s=300)
    acc = Acc(shape)
    bv = {(i, j): z3.Real(f"bor_{i}_{j}") for i in range(n) for j in range(i + 1, n)}
    dv = {(i, j): z3.Real(f"dis_{i}_{j}") for i in range(n) for j in range(i + 1, n)}
    for v in list(bv.values()) + list(dv.values()):
        eng.declare_sign(v, "+")
    eng.assume_global(*[v > 0 for v in list(bv.values()) + list(dv.values())])

    class V(_assembly_base(Vm, dim)):
        def _calculate_borders(self, i, j):
            return SR(bv[(min(i, j), max(i, j))])

        def _calculate_center_distances(self, i, j):
            return SR(dv[(min(i, j), max(i, j))])

    def body():
        with bound(Vm, coo_array=sp.coo_array, print=noprint):
            v = _assembly_object(Vm, V, centers, regions)
            return {p: v._calculate_N_N_array(sel_property=p) for p in ("adjacency", "border_len", "center_distances")}

    adj = {(i, j): len(set(regions[i]) & set(regions[j])) >= dim - 1 for i in range(n) for j in range(i + 1, n)}
    for path in eng.explore(body):
        acc.begin(prover, path)
        if path.kind == "exc":
            if fgstub.BYPASSED:
                bypass_guard(path.value)
            acc.structural("no_exception", False, detail=repr(path.value) + (path.tb or "")[-500:], cex={"kind": "exception", "exc": type(path.value).__name__})
            continue
        if acc.reachable is not True:
            acc.reach(prover.satisfiable(path.premises))
        R = path.value
        pats = {p: (list(R[p].row), list(R[p].col)) for p in R}
        acc.structural("one_pattern_for_three_properties", pats["adjacency"] == pats["border_len"] == pats["center_distances"], detail=str(pats)[:300])
        acc.structural("shape", all(tuple(R[p].shape) == (n, n) for p in R), detail=str({p: R[p].shape for p in R}))
        claims = []
        for p, vals in (("adjacency", None), ("border_len", bv), ("center_distances", dv)):
            Fm = R[p].toarray()
            for i in range(n):
                claims.append((f"diag[{p},{i}]", z(Fm[i, i]) == 0))
                for j in range(i + 1, n):
                    exp = (z3.RealVal(1) if vals is None else vals[(i, j)]) if adj[(i, j)] else z3.RealVal(0)
                    claims.append((f"entry[{p},{i},{j}]", z(Fm[i, j]) == exp))
                    claims.append((f"sym[{p},{i},{j}]", z(Fm[i, j]) == z(Fm[j, i])))
        acc.add(prover.prove_all(path.premises, claims))
    return acc.result(eng.stats, prover.stats)


def _compose_setup(shape):
    N = shape["N"]
    n2 = 2 * N
    G = gen_G(N, 0)
    centers = np.vstack([G, -G])
    # region lists from a seeded choice of adjacent pairs: an adjacent pair owns three vertices of its own (the shared 2-face), other
    # pairs share nothing; a cell is never adjacent to its own antipode (contract of the full-sphere diagram)
    rng = np.random.default_rng(500 + shape["rseed"])
    pairs = [(i, j) for i in range(n2) for j in range(i + 1, n2) if j != (i + N) % n2]
    mode = shape["rseed"] % 100
    chosen = pairs if mode == 0 else [p_ for p_ in pairs if rng.random() < 0.5]
    regions = [[1000 + i] for i in range(n2)]
    for k, (i, j) in enumerate(chosen):
        vs = [3 * k, 3 * k + 1, 3 * k + 2]
        regions[i] += vs
        regions[j] += vs
    regions = [sorted(r_) for r_ in regions]
    adj = {(i, j): len(set(regions[i]) & set(regions[j])) >= 3 for i in range(n2) for j in range(n2) if i != j}
    return N, n2, G, centers, regions, adj


def run_compose(shape):
    """HalfRotobjVoronoi._calculate_N_N_array over a full-sphere object that runs the REAL pair loop on given region lists (centres: the
    double cover [G; -G]; border / distance callbacks symbolic): the folded entry is the near pair's value if the near pair shares a face,
    else the far pair's -- whatever arguments the half grid passes down to the pair loop"""
    import molgri.space.voronoi as Vm
    N, n2, G, centers, regions, adj = _compose_setup(shape)
    opp = lambda i: (i + N) % n2
    eng = Engine()
    prover = Prover(timeout_ms=10000, budget_s=300)
    acc = Acc(shape)
    bv = {(i, j): z3.Real(f"bor_{i}_{j}") for i in range(n2) for j in range(i + 1, n2)}
    dv = {(i, j): z3.Real(f"dis_{i}_{j}") for i in range(n2) for j in range(i + 1, n2)}
    for v in list(bv.values()) + list(dv.values()):
        eng.declare_sign(v, "+")
    eng.assume_global(*[v > 0 for v in list(bv.values()) + list(dv.values())])

    class V(Vm.RotobjVoronoi):
        def _calculate_borders(self, i, j):
            return SR(bv[(min(i, j), max(i, j))])

        def _calculate_center_distances(self, i, j):
            return SR(dv[(min(i, j), max(i, j))])

    def body():
        with bound(Vm, coo_array=sp.coo_array, print=noprint, np=NPProxy()):
            full = _assembly_object(Vm, V, centers, regions)
            h = fgstub.make_half_voronoi(Vm, N, G, full)
            return {p: h._calculate_N_N_array(sel_property=p) for p in ("adjacency", "border_len", "center_distances")}

    def A(prop, i, j):
        if i == j or not adj[(i, j)]:
            return z3.RealVal(0)
        return z3.RealVal(1) if prop == "adjacency" else (bv if prop == "border_len" else dv)[(min(i, j), max(i, j))]
    for path in eng.explore(body):
        acc.begin(prover, path)
        if path.kind == "exc":
            if fgstub.BYPASSED:
                bypass_guard(path.value)
            acc.structural("no_exception", False, detail=repr(path.value) + (path.tb or "")[-500:], cex={"kind": "exception", "exc": type(path.value).__name__})
            continue
        if acc.reachable is not True:
            acc.reach(prover.satisfiable(path.premises))
        R = path.value
        ok = all(tuple(R[p].shape) == (N, N) for p in R)
        acc.structural("result_is_NxN", ok, detail={p: tuple(R[p].shape) for p in R})
        if not ok:
            continue
        claims = []
        for prop in R:
            Fm = R[prop].toarray()
            for i in range(N):
                for j in range(N):
                    if i == j:
                        claims.append((f"diag[{prop},{i}]", z(Fm[i, i]) == 0))
                        continue
                    a, b = A(prop, i, j), A(prop, i, opp(j))
                    claims.append((f"fold_of_the_real_pair_loop[{prop},{i},{j}]", z(Fm[i, j]) == (a if adj[(i, j)] else b)))
        acc.add(prover.prove_all(path.premises, claims))
    return acc.result(eng.stats, prover.stats)


def replay_compose(cex):
    import contextlib, io
    import molgri.space.voronoi as Vm
    shape = cex["shape"]
    N, n2, G, centers, regions, adj = _compose_setup(shape)
    opp = lambda i: (i + N) % n2
    bvf = lambda i, j: 1.0 + 0.1 * min(i, j) + 0.01 * max(i, j)
    dvf = lambda i, j: 2.0 + 0.1 * min(i, j) + 0.01 * max(i, j)

    class V(Vm.RotobjVoronoi):
        def _calculate_borders(self, i, j):
            return bvf(i, j)

        def _calculate_center_distances(self, i, j):
            return dvf(i, j)
    bad = []
    try:
        with contextlib.redirect_stdout(io.StringIO()):
            full = _assembly_object(Vm, V, centers, regions)
            h = fgstub.make_half_voronoi(Vm, N, G, full)
            R = {p: np.asarray(h._calculate_N_N_array(sel_property=p).toarray(), dtype=float) for p in ("adjacency", "border_len", "center_distances")}
    except Exception as e:  # noqa: BLE001
        return {"reproduced": True, "detail": f"raised {e!r}"}
    for prop, Fm in R.items():
        val = (lambda i, j: 1.0) if prop == "adjacency" else (bvf if prop == "border_len" else dvf)
        for i in range(N):
            for j in range(N):
                if i == j:
                    continue
                exp = val(i, j) if adj[(i, j)] else (val(i, opp(j)) if adj[(i, opp(j))] else 0.0)
                if Fm.shape != (N, N) or not isclose(Fm[i, j], exp):
                    bad.append(f"{prop}[{i},{j}] = {Fm[i, j] if Fm.shape == (N, N) else Fm.shape}, expected {exp}")
    return {"reproduced": bool(bad), "detail": f"regions {regions}: {bad[:5]}"}


def replay_assembly(cex):
    import molgri.space.voronoi as Vm
    shape = cex["shape"]
    dim, n = shape["dim"], shape["n"]
    regions = _regions(dim, n, shape["rseed"])

    centers = _assembly_centers(dim, n)

    class V(_assembly_base(Vm, dim)):
        def _calculate_borders(self, i, j):
            return 1.0 + 0.1 * min(i, j) + 0.01 * max(i, j)

        def _calculate_center_distances(self, i, j):
            return 2.0 + 0.1 * min(i, j) + 0.01 * max(i, j)
    v = _assembly_object(Vm, V, centers, regions)
    bad = []
    try:
        mats = {p: v._calculate_N_N_array(sel_property=p) for p in ("adjacency", "border_len", "center_distances")}
    except Exception as e:  # noqa: BLE001
        return {"reproduced": True, "detail": f"raised {e!r}"}
    pats = [(list(mats[p].row), list(mats[p].col)) for p in mats]
    if not (pats[0] == pats[1] == pats[2]):
        bad.append("patterns differ")
    for p, f in (("adjacency", lambda i, j: 1.0), ("border_len", v._calculate_borders), ("center_distances", v._calculate_center_distances)):
        Fm = np.asarray(mats[p].toarray(), dtype=float)
        for i in range(n):
            if Fm[i, i] != 0:
                bad.append(f"diag[{p},{i}]")
            for j in range(i + 1, n):
                exp = f(i, j) if len(set(regions[i]) & set(regions[j])) >= dim - 1 else 0.0
                if not isclose(Fm[i, j], exp) or not isclose(Fm[j, i], exp):
                    bad.append(f"entry[{p},{i},{j}]")
    return {"reproduced": bool(bad), "detail": f"regions {regions}: {bad[:6]}"}


# ------------------------------------------------------------------------------------------------------ distance
def run_distance(shape):
    import molgri.space.utils as U
    eng = Engine()
    prover = Prover(timeout_ms=60000, budget_s=500)
    acc = Acc(shape)
    q1 = [z3.Real(f"p{k}") for k in range(4)]
    q2 = [z3.Real(f"q{k}") for k in range(4)]
    n1 = z3.Sum([x * x for x in q1])
    n2 = z3.Sum([x * x for x in q2])
    unit = [n1 == 1, n2 == 1]
    eng.assume_global(*unit)
    proxy = NPProxy()
    acos = uf_acos()

    import molgri.space.voronoi as Vm

    def vor(c0, c1):
        """the distance entry as the rotation-grid Voronoi object computes it for two cell centres"""
        h = object.__new__(Vm.RotobjVoronoi)
        h.centers = sarr([list(c0), list(c1)])
        return h._calculate_center_distances(0, 1)

    def body():
        with bound(U, np=proxy, print=noprint), bound(Vm, np=proxy, print=noprint):
            a, b = sarr([SR(x) for x in q1]), sarr([SR(x) for x in q2])
            f = U.distance_between_quaternions if shape.get("via", "utils") == "utils" else vor
            return (f(a, b), f(b, a), f(a, -b), f(-a, b))

    dot = z3.Sum([a * b for a, b in zip(q1, q2)])
    absdot = z3.If(dot >= 0, dot, -dot)
    for path in eng.explore(body):
        acc.begin(prover, path)
        if path.kind == "exc":
            bypass_guard(path.value)
            acc.structural("no_exception", False, detail=repr(path.value) + (path.tb or "")[-800:], cex={"kind": "exception", "exc": type(path.value).__name__})
            continue
        if acc.reachable is not True:
            acc.reach(prover.satisfiable(path.premises[:4]))
        vals = [z(x if not isinstance(x, np.ndarray) else x.reshape(-1)[0]) for x in path.value]
        # stage 1: the norms the code computes are 1 (lemma per sqrt variable, from the sqrt axioms and the unit premise only)
        subs, lem = [], []
        for key, (arg, var, _simp) in path.sqrts.items():
            lem.append((f"norm_is_1[{var}]", var == 1))
            subs.append((var, z3.RealVal(1)))
        r = prover.prove_all(unit + path.axioms, lem, timeout_ms=30000)
        acc.add(r)
        if not all(x.verdict == "proved" for x in r):
            continue
        # stage 2: Cauchy-Schwarz for unit vectors, via the polynomial identity |p-q|^2 = 2-2p.q and |p+q|^2 = 2+2p.q
        dm = z3.Sum([(a - b) * (a - b) for a, b in zip(q1, q2)])
        dp = z3.Sum([(a + b) * (a + b) for a, b in zip(q1, q2)])
        ids = prover.prove_all([], [("identity_minus", dm == n1 + n2 - 2 * dot), ("identity_plus", dp == n1 + n2 + 2 * dot)])
        acc.add(ids)
        sq = [z3.Real(f"sqm{k}") for k in range(4)] + [z3.Real(f"sqp{k}") for k in range(4)]
        sqdef = [sq[k] == (q1[k] - q2[k]) * (q1[k] - q2[k]) for k in range(4)] + [sq[4 + k] == (q1[k] + q2[k]) * (q1[k] + q2[k]) for k in range(4)]
        nonneg = prover.prove_all(sqdef, [(f"square_nonneg[{k}]", sq[k] >= 0) for k in range(8)])
        acc.add(nonneg)
        cs = prover.prove("cauchy_schwarz", unit + sqdef + [x >= 0 for x in sq] + [z3.Sum(sq[:4]) == n1 + n2 - 2 * dot, z3.Sum(sq[4:]) == n1 + n2 + 2 * dot],
                          z3.And(dot <= 1, dot >= -1), timeout_ms=60000)
        acc.add([cs])
        if cs.verdict != "proved" or not all(x.verdict == "proved" for x in ids + nonneg):
            continue
        # stage 3 (assume): continue on the output terms with the proved norms substituted; acos axioms instantiated for
        # the arguments that occur
        vals = [z3.simplify(z3.substitute(v, *subs)) for v in vals]
        d, dsw, dneg2, dneg1 = vals
        facts = unit + [z3.And(dot <= 1, dot >= -1)] + acos_facts([dot, -dot, absdot])
        claims = [("distance_is_acos_abs_dot", d == acos(absdot)), ("symmetric", d == dsw), ("sign_invariant_q2", d == dneg2),
                  ("sign_invariant_q1", d == dneg1), ("range", z3.And(d >= 0, d * 2 <= PI))]
        acc.add(prover.prove_all(facts, claims, timeout_ms=60000))
    return acc.result(eng.stats, prover.stats)


def replay_distance(cex):
    import math
    import molgri.space.utils as U
    model = cex.get("model", {}) or {}
    p = np.array([fval(model, f"p{k}", 0.5) for k in range(4)], dtype=float)
    q = np.array([fval(model, f"q{k}", [0.5, -0.5, 0.5, 0.5][k]) for k in range(4)], dtype=float)
    p, q = p / np.linalg.norm(p), q / np.linalg.norm(q)
    if cex["shape"].get("via") == "voronoi":
        import molgri.space.voronoi as Vm
        rng = np.random.default_rng(4)
        bad = []
        pairs = [(p, q)] + [tuple(v / np.linalg.norm(v) for v in rng.normal(size=(2, 4))) for _ in range(100)]
        for a, b in pairs:
            h = object.__new__(Vm.RotobjVoronoi)
            h.centers = np.array([a, b])
            got = float(h._calculate_center_distances(0, 1))
            exp = math.acos(min(1.0, abs(float(a @ b))))
            if not isclose(got, exp, rtol=1e-7, atol=1e-9):
                bad.append(f"centres {a.tolist()} {b.tolist()}: distance entry {got}, sign-minimised angle {exp}")
        return {"reproduced": bool(bad), "detail": str(bad[:2])}
    d = float(U.distance_between_quaternions(p, q))
    exp = math.acos(min(1.0, abs(float(p @ q))))
    bad = []
    if not isclose(d, exp, rtol=1e-7, atol=1e-9):
        bad.append(f"d={d} expected acos|p.q|={exp}")
    for a, b, nm in ((q, p, "swap"), (p, -q, "-q"), (-p, q, "-p")):
        if not isclose(float(U.distance_between_quaternions(a, b)), d, rtol=1e-7, atol=1e-9):
            bad.append(nm)
    return {"reproduced": bool(bad), "detail": f"p={p.tolist()} q={q.tolist()}: {bad}"}


def replay(cex):
    return {"compose": replay_compose, "fold": replay_fold, "assembly": replay_assembly, "distance": replay_distance, "reduce": replay_reduce, "cell_model": replay_cell_model}[cex["shape"]["kind"]](cex)


def finding_key(cex):
    s = cex["shape"]
    ob = cex["obligation"].split("[")[0]
    return f"C04:{s['kind']}{s.get('via', '')}:{ob}"


DEFERRED_ERRORS = []


def stub_contract():
    """The harnesses replace the compiled geometry (Qhull regions, SVD projection of a face, ordering of its vertices, Girard sum) by contract
    stand-ins: "for every pair of cells that share a face the code obtains a positive area / a positive distance; the three matrices sit on
    one symmetric pattern".  What is below that contract is outside the claim (LAPACK, arctan2 / arccos over coordinates) -- but the contract
    itself is re-checked here on small REAL rotation grids on every run.  A tree on which the real geometry side raises, or delivers
    non-positive or asymmetric values, makes the run a HARNESS ERROR (the symbolic result would rest on a false assumption), never a pass."""
    import contextlib, io
    import molgri.space.rotobj as RO
    n = 0
    with contextlib.redirect_stdout(io.StringIO()):
        for alg, Ns in (("cube4D", (4, 5, 6, 8, 10)), ("randomQ", (4, 5, 7, 8, 12))):
            for N in Ns:
                g = RO.SphereGrid4DFactory.create(alg, N)
                A = g.get_voronoi_adjacency().toarray()
                B = g.get_cell_borders().toarray()
                D = g.get_center_distances().toarray()
                assert np.array_equal(A != 0, B != 0) and np.array_equal(A != 0, D != 0), (alg, N, "the three matrices do not share one pattern")
                assert np.allclose(B, B.T) and np.allclose(D, D.T) and np.array_equal(A, A.T), (alg, N, "a matrix is not symmetric")
                assert (B[B != 0] > 0).all() and (D[D != 0] > 0).all(), (alg, N, "a border area / distance is not positive")
                n += 1
    return n


def selftest(seed):
    del DEFERRED_ERRORS[:]
    n = sparse_selftest(seed, rounds=4)
    try:
        n += stub_contract()
    except Exception:  # noqa: BLE001
        import traceback
        DEFERRED_ERRORS.append("contract of the compiled geometry broken on a small real rotation grid (the stand-ins assume it):\n" + traceback.format_exc()[-1500:])
    return n
