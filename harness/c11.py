"""C11 -- frame assignment equals geometric membership (radial, direction, index composition).

Real `AssignmentTool._t_assignment_function`, `_o_assignment_function`, `_get_t_assignments`, `_get_o_assignments`,
`_get_position_assignments`, `get_full_assignments`, `normalise_vectors`, `norm_per_axis` run on a SYMBOLIC centre of
mass, symbolic radii and symbolic unit direction vectors.  The rotation index b is a stub: recovering it needs an
eigen-decomposition and an SVD (outside, DESIGN section 6).
"""
import itertools
import math

import numpy as np
import z3

from symx.core import Engine, SR, SB, noprint
from symx.arr import sarr
from symx.models import fcdist
from symx.npproxy import NPProxy
from symx.prove import Prover, purify
from symx.runner import Acc
from harness.common import bypass_guard, bound, z, fval
from harness.geom import position_spec

PROPERTY = "C11"
FUNCTIONS = ["molgri.molecules.transitions.AssignmentTool._t_assignment_function", "AssignmentTool._o_assignment_function", "AssignmentTool._get_t_assignments",
             "AssignmentTool._get_o_assignments", "AssignmentTool._get_position_assignments", "AssignmentTool.get_full_assignments",
             "molgri.space.utils.normalise_vectors", "utils.norm_per_axis"]
STUBS = ["MDAnalysis AnalysisFromFunction -> direct loop over stub frames; center_of_mass() symbolic", "scipy cdist -> euclidean / cosine closed forms (self-tested)",
         "_get_quaternion_assignments -> given index array (rotation recovery: eigen-decomposition + SVD, outside)", "pandas describe/print -> no-op",
         "sqrt -> fresh variable with monotonicity axioms; non-constant division purified (q*den = num)"]
ASSUMPTIONS = ["direction vectors have unit norm, the centre of mass is not the origin", "float modelled by the reals", "radii strictly increasing, positive"]
OUTSIDE = ["the recovery of the rotation from atom coordinates (inertia tensor, eigen-decomposition, handedness fix-up) and therefore the round trip pseudotrajectory -> 0,1,2,...", "n_t = 1", "sizes beyond the bound"]
FUNCTIONS += ["AssignmentTool._get_quaternion_assignments, _get_rotation_matrices, _complex_mdanalysis_func (frame bookkeeping of the rotation index: `frames` shapes)"]
STUBS += ["`frames` shapes: principal_axes() -> per-frame contract stand-in (molecule 2 sits in a tilted grid rotation), _determine_positive_directions -> (1,1,1), "
          "multiprocessing.Pool -> serial map; scipy Rotation runs for real on the concrete orientations"]
FUNCTIONS += ["AssignmentTool.__init__ (grid decomposition, molecule selection, centring transformation, stop) -- two tools in one process",
              "AssignmentTool._determine_second_molecule", "molgri.space.fullgrid.from_full_array_to_o_b_t (as called by the tool)"]


def bounds(tier):
    return {"radial": {"n_t": [2, 3, 4] if tier == "quick" else [2, 3, 4, 5, 6], "include_outliers": [False, True]},
            "direction": {"n_o": [2, 3] if tier == "quick" else [2, 3, 4], "metric": ["euclidean", "cos"]},
            "composition": {"n_t": 3, "n_o": 2, "n_b": [1, 3], "frames": "1-2",
                            "frame bookkeeping of the rotation index": "n_b = 3, 2 frames (thorough: 3), centres of mass symbolic, per-frame orientation concrete"},
            "nearest_rotation": {"grids": "2 (thorough 4) concrete rotation grids of 3-5 rotations with rational entries", "orientation": "arbitrary symbolic unit quaternion", "frames": 1},
            "tools_history": {"two AssignmentTool objects in one process": "n_t = 2, n_o = 1, n_b in {1, 2} (thorough: + n_o = 2, n_t = 3); radii of both grids symbolic"}}


def shapes(tier, seed):
    out = []
    for n_t in ((2, 3, 4) if tier == "quick" else (2, 3, 4, 5, 6)):
        for inc in (False, True):
            out.append({"kind": "radial", "n_t": n_t, "include_outliers": inc})
    for n_o in ((2, 3) if tier == "quick" else (2, 3, 4)):
        for cart in (True, False):
            out.append({"kind": "direction", "n_o": n_o, "cartesian": cart})
    for (n1, n2) in ((2, 1), (1, 2)):
        for inc in (False, True):
            out.append({"kind": "pipeline", "n_t": 3, "n1": n1, "n2": n2, "include_outliers": inc})
    out.append({"kind": "tools", "n_t": 2, "n_o": 1, "n_b": 1})
    out.append({"kind": "tools", "n_t": 2, "n_o": 1, "n_b": 2})
    if tier == "thorough":
        out.append({"kind": "tools", "n_t": 2, "n_o": 2, "n_b": 1})
        out.append({"kind": "tools", "n_t": 3, "n_o": 1, "n_b": 1})
    for n_b in (1, 3):
        for inc in (False, True):
            # n_t != n_o != n_b so that a swapped stride is visible
            out.append({"kind": "compose", "n_t": 3, "n_o": 2, "n_b": n_b, "frames": 2 if (n_b == 3 and not inc) else 1, "include_outliers": inc})
    # the rotation index through the tool's own frame bookkeeping (which frame is sought / evaluated / where its result lands)
    out.append({"kind": "compose", "rotation": "frames", "n_t": 2, "n_o": 1, "n_b": 3, "frames": 2, "include_outliers": False})
    out.append({"kind": "compose", "rotation": "frames", "n_t": 2, "n_o": 2, "n_b": 3, "frames": 1, "include_outliers": True})
    if tier == "thorough":
        out.append({"kind": "compose", "rotation": "frames", "n_t": 2, "n_o": 1, "n_b": 3, "frames": 3, "include_outliers": False})
    # the nearest grid rotation for a SYMBOLIC orientation of the molecule (grid: concrete rotations)
    for gi in ((0, 1) if tier == "quick" else (0, 1, 2, 3)):
        out.append({"kind": "nearest", "grid": gi})
    return out


TOOL_BYPASSED = []


def make_tool(T, t_array=None, o_array=None, b_array=None, include_outliers=False, cartesian_grid=True, real=False):
    """an AssignmentTool built by its REAL __init__ (molecule selection, centring transformation, stop, whatever it derives eagerly
    from its grids); only the decomposition of the grid array is replaced by one that hands out the grids of the run (the decomposition
    itself is decided by C09 and by the `tools` shapes).  `real=True`: on real MDAnalysis objects (replays)."""
    import numpy as _np
    t_ = t_array if t_array is not None else _np.array([1.0, 2.0])
    o_ = o_array if o_array is not None else _np.array([[0.0, 0.0, 1.0]])
    b_ = b_array if b_array is not None else _np.array([[0.0, 0.0, 0.0, 1.0]])
    if real:
        import MDAnalysis as mda
        from MDAnalysis.coordinates.memory import MemoryReader
        from symx.models import real_universe
        base = real_universe([[0.0, 0.0, 0.0], [0.0, 0.0, 1.0], [0.0, 0.5, 1.5]], [12.0, 1.0, 16.0], ["C", "H", "O"])
        u = mda.Universe(base._topology, _np.array([[[0.0, 0.0, 0.0], [0.0, 0.0, 1.0], [0.0, 0.5, 1.5]]], dtype=_np.float32), format=MemoryReader)
        ref = real_universe([[0.0, 0.0, 0.0], [0.0, 0.5, 0.5]], [1.0, 16.0], ["H", "O"])
        extra = {}
    else:
        from symx.models import FMemUniverse, FTopology
        u = FMemUniverse(FTopology([12.0, 1.0, 16.0], ["C", "H", "O"]), sarr([[[0.0, 0.0, 0.0], [0.0, 0.0, 1.0], [0.0, 0.5, 1.5]]]))
        ref = FMemUniverse(FTopology([1.0, 16.0], ["H", "O"]), sarr([[[0.0, 0.0, 0.0], [0.0, 0.5, 0.5]]]))
        extra = {"trans": TransStub}
    try:
        with bound(T, from_full_array_to_o_b_t=lambda arr: (o_, b_, t_), **extra):
            return T.AssignmentTool(_np.zeros((1, 7)), u, ref, include_outliers=include_outliers, cartesian_grid=cartesian_grid)
    except Exception as e:  # noqa: BLE001 - the constructor needs more than the stand-ins offer: fall back, and say so
        TOOL_BYPASSED.append(f"AssignmentTool.__init__: {type(e).__name__}: {e}")
        at = object.__new__(T.AssignmentTool)
        at.t_array, at.o_array, at.b_array, at.include_outliers, at.cartesian_grid = t_, o_, b_, include_outliers, cartesian_grid
        return at


class AG:
    def __init__(self, com):
        self.com = com

    def center_of_mass(self, **k):
        return self.com.copy()


def run_shape(shape):
    if shape["kind"] == "tools":
        return run_tools(shape)
    if shape["kind"] == "pipeline":
        return run_pipeline(shape)
    return {"radial": run_radial, "direction": run_direction, "compose": run_compose, "nearest": run_nearest}[shape["kind"]](shape)


def run_radial(shape):
    import molgri.molecules.transitions as T
    import molgri.space.utils as U
    n_t, inc = shape["n_t"], shape["include_outliers"]
    r = [z3.Real(f"r{k}") for k in range(n_t)]
    c = [z3.Real(f"c{k}") for k in range(3)]
    eng = Engine()
    prover = Prover(timeout_ms=20000, budget_s=300)
    acc = Acc(shape)
    eng.assume_global(r[0] > 0, *[r[k + 1] > r[k] for k in range(n_t - 1)])
    proxy = NPProxy()

    def body():
        with bound(T, np=proxy, print=noprint), bound(U, np=proxy):
            at = make_tool(T, t_array=sarr([SR(x) for x in r]), include_outliers=inc)
            return at._t_assignment_function(AG(sarr([SR(x) for x in c])))

    Rb, _, _, _, _ = position_spec(1, n_t, [z3.RealVal(1)], {}, {}, r, zero=z3.RealVal(0))
    for path in eng.explore(body):
        acc.begin(prover, path)
        if path.kind == "exc":
            if TOOL_BYPASSED:
                bypass_guard(path.value)
            acc.structural("no_exception", False, detail=repr(path.value) + (path.tb or "")[-500:], cex={"kind": "exception", "exc": type(path.value).__name__})
            continue
        if acc.reachable is not True:
            acc.reach(prover.satisfiable(path.premises))
        v = path.value
        if not path.sqrts:
            acc.structural("distance_computed", False, detail="no norm taken")
            continue
        d = list(path.sqrts.values())[0][1]
        dist_ok = [d >= 0, d * d == z3.Sum([x * x for x in c])]
        if isinstance(v, float) and math.isnan(v):
            claim = (d > Rb[-1]) if not inc else z3.BoolVal(False)
            nm = "nan_iff_beyond_last_boundary"
        else:
            k = int(v)
            lo = Rb[k - 1] if k > 0 else z3.RealVal(0)
            claim = z3.And(d >= lo, d <= Rb[k]) if (not inc or k < n_t - 1) else d >= lo
            nm = f"shell_contains_distance[{k}]"
            # equivalently: the nearest radius
            acc.add([prover.prove(f"nearest_radius[{k}]", path.premises + dist_ok, z3.And([z3.If(d >= r[k], d - r[k], r[k] - d) <= z3.If(d >= r[j], d - r[j], r[j] - d) for j in range(n_t)]))],
                    make_cex=lambda r_: {})
        acc.add([prover.prove(nm, path.premises + dist_ok, claim)], make_cex=lambda r_: {})
    return acc.result(eng.stats, prover.stats)


def run_direction(shape):
    import molgri.molecules.transitions as T
    import molgri.space.utils as U
    n_o, cart = shape["n_o"], shape["cartesian"]
    o = [[z3.Real(f"o{j}_{k}") for k in range(3)] for j in range(n_o)]
    c = [z3.Real(f"c{k}") for k in range(3)]
    eng = Engine()
    eng.decide_timeout_ms = 2000
    prover = Prover(timeout_ms=20000, budget_s=600)
    acc = Acc(shape)
    unit = [z3.Sum([x * x for x in oj]) == 1 for oj in o]
    nonzero = z3.Sum([x * x for x in c]) > 0
    eng.assume_global(*unit, nonzero)
    proxy = NPProxy()

    def body():
        with bound(T, np=proxy, print=noprint, cdist=fcdist), bound(U, np=proxy):
            at = make_tool(T, o_array=sarr([[SR(x) for x in oj] for oj in o]), cartesian_grid=cart)
            return at._o_assignment_function(AG(sarr([SR(x) for x in c])))

    dots = [z3.Sum([o[i][k] * c[k] for k in range(3)]) for i in range(n_o)]
    n2 = z3.Sum([x * x for x in c])
    for path in eng.explore(body):
        acc.begin(prover, path)
        if path.kind == "exc":
            if TOOL_BYPASSED:
                bypass_guard(path.value)
            acc.structural("no_exception", False, detail=repr(path.value) + (path.tb or "")[-500:], cex={"kind": "exception", "exc": type(path.value).__name__})
            continue
        if acc.reachable is not True:
            acc.reach(prover.satisfiable(path.premises[: n_o + 1]))
        w = int(np.asarray(path.value).reshape(-1)[0])
        acc.structural("index_in_range", 0 <= w < n_o, detail=w)
        if not 0 <= w < n_o:
            continue
        _staged_direction(prover, acc, path, o, c, n2, dots, w, n_o, cart, unit, nonzero)
    return acc.result(eng.stats, prover.stats)


def _staged_direction(prover, acc, path, o, c, n2, dots, w, n_o, cart, unit, nonzero):
    """o_w . c >= o_i . c for every i, as a chain of small obligations (the direct query is `unknown` in every solver).

       S0  s := |c| is the path's sqrt variable, s > 0; u_k := c_k / s (fresh u with u_k*s = c_k is the same number); |u| = 1
       S1  the keys the code compared: euclidean key_j >= 0, key_j^2 = |o_j - u|^2; cosine: the norms it divides by are 1
       S2  the path's comparisons order the keys: key_w <= key_i (linear over the key variables)
       S3  euclidean: squares are monotone on non-negatives, |o_j - u|^2 = 2 - 2 o_j.u;  cosine: key order gives o_w.u >= o_i.u
       S4  o_j.c = s * (o_j.u); generic last step over fresh reals: s>0, da>=db, pa=s*da, pb=s*db |- pa>=pb
    A lemma over fresh variables is used as a generalisation (valid for all values, hence for the instance)."""
    s = path.sqrt_of(n2)
    if s is None:
        acc.structural("norm_of_centre_of_mass_taken", False, detail="|c| not computed on this path")
        return
    u = [z3.Real(f"u{k}") for k in range(3)]
    udef = [u[k] * s == c[k] for k in range(3)]
    base = unit + [nonzero, s >= 0, s * s == n2]
    ok = True

    def step(results):
        nonlocal ok
        results = results if isinstance(results, list) else [results]
        acc.add(results, make_cex=lambda r_: {})
        ok = ok and all(r.verdict == "proved" for r in results)
        return ok
    if not step(prover.prove("S0_norm_positive", base, s > 0)):
        return
    if not step(prover.prove("S0_u_is_unit", [s > 0, s * s == n2] + udef, z3.Sum([x * x for x in u]) == 1, timeout_ms=30000)):
        return
    quot = [c[k] / s == u[k] for k in range(3)]
    if not step(prover.prove_all([s > 0] + udef, [(f"S0_quotient[{k}]", quot[k]) for k in range(3)])):
        return
    uunit = z3.Sum([x * x for x in u]) == 1
    ou = [z3.Sum([o[j][k] * u[k] for k in range(3)]) for j in range(n_o)]
    others = [i for i in range(n_o) if i != w]
    if cart:
        Xu = [z3.Sum([(o[j][k] - u[k]) * (o[j][k] - u[k]) for k in range(3)]) for j in range(n_o)]
        keys = []
        for j in range(n_o):
            X = z3.Sum([(o[j][k] - c[k] / s) * (o[j][k] - c[k] / s) for k in range(3)])
            keys.append(path.sqrt_of(X))
        if any(k is None for k in keys):
            acc.inconclusive.append({"obligation": "S1_keys_identified", "solver": "harness", "note": "per-direction distance terms not found on the path"})
            acc.obligations += 1
            return
        if not step(prover.prove_all(path.axioms + quot, [(f"S1_key[{j}]", z3.And(keys[j] >= 0, keys[j] * keys[j] == Xu[j])) for j in range(n_o)], timeout_ms=30000)):
            return
        dec = [p for p in path.pc if _names(p) and all(n_.startswith("sqrt!") for n_ in _names(p))]
        if others and not step(prover.prove_all(dec, [(f"S2_key_order[{w}<={i}]", keys[w] <= keys[i]) for i in others])):
            return
        a, b, x, y = z3.Reals("ka kb kx ky")
        if not step(prover.prove("S3_squares_monotone", [a >= 0, b >= 0, a * a == x, b * b == y, a <= b], x <= y)):
            return
        if not step(prover.prove_all(unit + [uunit], [(f"S3_expand[{j}]", Xu[j] == 2 - 2 * ou[j]) for j in range(n_o)])):
            return
        xa, xb, da, db = z3.Reals("xa xb da db")
        if not step(prover.prove("S3_order_of_dot_products", [xa == 2 - 2 * da, xb == 2 - 2 * db, xa <= xb], da >= db)):
            return
    else:
        one = []
        for (arg, var, _s) in path.sqrts.values():
            if var.eq(s):
                continue
            one.append(prover.prove(f"S1_norm_is_one[{var}]", unit + [uunit, s > 0] + quot + [z3.Implies(arg >= 0, z3.And(var >= 0, var * var == arg))], var == 1, timeout_ms=30000))
        if not step(one):
            return
        subs = [(var, z3.RealVal(1)) for (_, var, _s) in path.sqrts.values() if not var.eq(s)]
        dec = [z3.substitute(p, *subs) for p in path.pc[len(unit) + 1:]]
        if others and not step(prover.prove_all(dec + quot, [(f"S3_order_of_dot_products[{w} vs {i}]", ou[w] >= ou[i]) for i in others], timeout_ms=30000)):
            return
    if not step(prover.prove_all(udef, [(f"S4_scale[{j}]", dots[j] == s * ou[j]) for j in range(n_o)])):
        return
    sv, da, db, pa, pb = z3.Reals("sv da db pa pb")
    if not step(prover.prove("S4_positive_scaling", [sv > 0, da >= db, pa == sv * da, pb == sv * db], pa >= pb)):
        return
    acc.structural(f"nearest_direction[{w}]", True)


def _quot_links(side, c, s, u):
    """a purified quotient q with q*s == c_k equals u_k (both are c_k/s, s != 0)"""
    out = []
    for sc in side:
        lhs, rhs = sc.arg(0), sc.arg(1)
        for k in range(3):
            if rhs.eq(c[k]) and lhs.num_args() == 2 and lhs.arg(1).eq(s):
                out.append(lhs.arg(0) == u[k])
    return out


def _names(t, acc=None, seen=None):
    acc = set() if acc is None else acc
    seen = set() if seen is None else seen
    if t.get_id() in seen:
        return acc
    seen.add(t.get_id())
    if z3.is_const(t) and t.decl().kind() == z3.Z3_OP_UNINTERPRETED:
        acc.add(t.decl().name())
    for ch in t.children():
        _names(ch, acc, seen)
    return acc


class FakeTraj:
    def __init__(self, n):
        self.n = n
        self.frame = 0

    def __len__(self):
        return self.n

    def __getitem__(self, i):
        """trajectory[i] seeks to frame i (MDAnalysis: indexing a reader loads that frame)"""
        i = int(i)
        if not -self.n <= i < self.n:
            raise IndexError(f"frame {i} of a trajectory with {self.n} frames")
        self.frame = i % self.n
        return self


class FakeAnalysis:
    """AnalysisFromFunction(func, trajectory, atomgroup).run(stop=..).results['timeseries']"""

    def __init__(self, func, trajectory, *args):
        self.func, self.traj, self.args = func, trajectory, args
        self.results = {}

    def run(self, start=None, stop=None, step=None, **k):
        out = []
        for i in range(len(self.traj) if stop is None else stop):
            if hasattr(self.traj, "u"):
                self.traj.u._cur = i          # memory-universe model: reading frame i
            else:
                self.traj.frame = i
            out.append(self.func(*self.args))
        if hasattr(self.traj, "u"):
            self.traj.u._cur = 0
        arr = np.empty(len(out), dtype=object)
        for i, v in enumerate(out):
            arr[i] = v if not isinstance(v, np.ndarray) else v.reshape(-1)[0]
        self.results["timeseries"] = arr.reshape(-1, 1)
        return self


class FrameAG:
    def __init__(self, traj, coms, axes=None):
        self.traj, self.coms, self.axes = traj, coms, axes
        self.universe = None
        self.atoms = self

    def center_of_mass(self, **k):
        return self.coms[self.traj.frame].copy()

    def principal_axes(self, **k):
        """contract stand-in for the eigen-decomposition of the inertia tensor (LAPACK, outside): the principal axes (rows) of the
        rigid second molecule IN THE FRAME THE TRAJECTORY IS CURRENTLY AT"""
        return np.array(self.axes[self.traj.frame], dtype=float)


class FakeUniverse:
    def __init__(self, traj, ag):
        self.trajectory, self._ag = traj, ag
        ag.universe = self

    def select_atoms(self, sel):
        return self._ag


def _rotation_stub(per_frame):
    """stand-in for the rotation recovery (eigen-decomposition + SVD: outside): the given index per frame; if the caller asks for a
    subset of frames (any spelling of such an argument), the indices of exactly those frames"""
    def stub(*a, **k):
        sel = a[0] if a else next((v for v in k.values() if v is not None), None)
        if sel is None:
            return per_frame
        return np.asarray(per_frame)[[int(i) for i in np.asarray(sel).reshape(-1)]]
    return stub


class SerialPool:
    """multiprocessing.Pool(k) by its documented contract: map(f, xs) == [f(x) for x in xs], in order"""
    def __init__(self, *a, **k):
        pass

    def __enter__(self):
        return self

    def __exit__(self, *a):
        return False

    def map(self, f, xs, chunksize=None):
        return [f(x) for x in xs]

    def imap(self, f, xs, chunksize=None):
        return iter([f(x) for x in xs])

    def starmap(self, f, xs, chunksize=None):
        return [f(*x) for x in xs]

    def close(self):
        pass

    def join(self):
        pass


class RefAxes:
    """reference structure of molecule 2: principal axes = coordinate axes"""
    def __init__(self):
        self.atoms = self

    def principal_axes(self, **k):
        return np.eye(3)


# rotation grid of the `frames` variant of compose: identity and the half turns about x and y (scalar-last quaternions)
ROT_Q = np.array([[0.0, 0.0, 0.0, 1.0], [1.0, 0.0, 0.0, 0.0], [0.0, 1.0, 0.0, 0.0]])
ROT_M = [np.diag([1.0, 1.0, 1.0]), np.diag([1.0, -1.0, -1.0]), np.diag([-1.0, 1.0, -1.0])]


def _rotation_bookkeeping(at, traj, coms, bstub):
    """`frames` variant: the REAL _get_quaternion_assignments / _get_rotation_matrices / _complex_mdanalysis_func run (which frame is
    sought, which frames are evaluated, in which order the results come back, argmin over the rotation grid); below them the
    eigen-decomposition is a per-frame contract stand-in (molecule 2 sits in frame f exactly in grid rotation bstub[f], tilted by a
    small generic rotation so that the nearest grid rotation is unique), the handedness fix-up is the identity, Pool is serial."""
    import numpy as _np
    from scipy.spatial.transform import Rotation as _R
    tilt = _R.from_rotvec([0.05, -0.03, 0.04]).as_matrix()
    axes = [(tilt @ ROT_M[int(b)]).T for b in bstub]          # rows = principal axes; the code transposes
    at.trajectory_universe = FakeUniverse(traj, FrameAG(traj, coms, axes))
    at.reference_universe = RefAxes()
    at._determine_positive_directions = lambda universe: _np.array([1.0, 1.0, 1.0])
    return at


class NoDescribe:
    def __init__(self, *a, **k):
        pass

    def describe(self):
        return ""


class PdStub:
    DataFrame = NoDescribe


class TransStub:
    """MDAnalysis.transformations: translate(v) is only handed to trajectory.add_transformations (recorded, not applied)"""
    @staticmethod
    def translate(v):
        return ("translate", v)


def _grid_rows(radii, O, Q):
    """rows of a full grid array in the package's order (position-major, rotation-minor); generic over floats / symbolic scalars"""
    rows = []
    for rk in radii:
        for o in O:
            for q in Q:
                rows.append([rk * float(c) for c in o] + [float(c) for c in q])
    return rows


def _tools_history(T, mk_universe, arrA, arrB, probe_ag):
    """two AssignmentTool objects in one process, built by the REAL __init__ (grid decomposition, molecule selection, centring
    transformation, stop): first a tool for another grid, then the tool under test; the second must work with ITS OWN grid"""
    uA, refA = mk_universe()
    toolA = T.AssignmentTool(arrA, uA, refA)
    toolA._t_assignment_function(probe_ag)            # the first tool is used, too
    uB, refB = mk_universe()
    toolB = T.AssignmentTool(arrB, uB, refB, include_outliers=False)
    return {"t": toolB.t_array, "o": toolB.o_array, "b": toolB.b_array, "stop": toolB.stop, "sel": toolB.second_molecule_selection,
            "t_index": toolB._t_assignment_function(probe_ag)}


TOOLS_O = {1: [[0.0, 0.0, 1.0]], 2: [[0.0, 0.0, 1.0], [0.0, 0.0, -1.0]]}
TOOLS_Q = {1: [[0.0, 0.0, 0.0, 1.0]], 2: [[0.0, 0.0, 0.0, 1.0], [0.0, 1.0, 0.0, 0.0]]}


def run_tools(shape):
    """Two assignment tools in one process (histories are C11's 'any rigid placement ... assigned cell index' seen from a user who analyses
    two grids in one script).  The two grids share directions and rotations and have DIFFERENT symbolic radii (rA, rB: positive, increasing
    by more than 1e-6 A, otherwise arbitrary -- in particular they may coincide in any checksum a cache might use).  The second tool must
    hold the decomposition of its own grid and assign the probe placement (0, 0, d), d symbolic, to the shell of ITS radii."""
    import molgri.molecules.transitions as T
    import molgri.space.fullgrid as F
    import molgri.space.utils as U
    from symx.core import sym_float
    from symx.models import FMemUniverse, FTopology
    n_t, n_o, n_b = shape["n_t"], shape["n_o"], shape["n_b"]
    rA = [z3.Real(f"ra{k}") for k in range(n_t)]
    rB = [z3.Real(f"rb{k}") for k in range(n_t)]
    d = z3.Real("d")
    eng = Engine()
    eng.decide_timeout_ms = 3000
    prover = Prover(timeout_ms=20000, budget_s=400)
    acc = Acc(shape)
    gap = z3.RealVal("1/1000000")
    pre = [d > 0]
    for r in (rA, rB):
        pre += [r[0] > gap] + [r[k + 1] - r[k] > gap for k in range(n_t - 1)]
        for x in r:
            eng.declare_sign(x, "+")
    eng.declare_sign(d, "+")
    eng.assume_global(*pre)
    proxy = NPProxy()
    O, Q = TOOLS_O[n_o], TOOLS_Q[n_b]

    def mk_universe():
        top = FTopology([12.0, 1.0, 16.0], ["C", "H", "O"])       # molecule 1: one atom, molecule 2: two atoms
        frames = sarr([[[0.0, 0.0, 0.0], [0.0, 0.0, 1.0 + f], [0.0, 0.5, 1.5 + f]] for f in range(2)])
        return FMemUniverse(top, frames), FMemUniverse(FTopology([1.0, 16.0], ["H", "O"]), sarr([[[0.0, 0.0, 0.0], [0.0, 0.5, 0.5]]]))

    def body():
        with bound(T, np=proxy, print=noprint, cdist=fcdist, AnalysisFromFunction=FakeAnalysis, pd=PdStub, trans=TransStub, float=sym_float), \
                bound(F, np=proxy, print=noprint), bound(U, np=proxy):
            arrA = sarr(_grid_rows([SR(x) for x in rA], O, Q))
            arrB = sarr(_grid_rows([SR(x) for x in rB], O, Q))
            return _tools_history(T, mk_universe, arrA, arrB, AG(sarr([0.0, 0.0, SR(d)])))

    Rb, _, _, _, _ = position_spec(1, n_t, [z3.RealVal(1)], {}, {}, rB, zero=z3.RealVal(0))
    for path in eng.explore(body):
        acc.begin(prover, path)
        cexinfo = {"model": _path_model(path)}
        if path.kind == "exc":
            acc.structural("no_exception", False, detail=repr(path.value) + (path.tb or "")[-700:], cex=dict(cexinfo, kind="exception", exc=type(path.value).__name__))
            continue
        if acc.reachable is not True:
            acc.reach(prover.satisfiable(path.premises))
        o = path.value
        ok = tuple(np.shape(o["t"])) == (n_t,) and tuple(np.shape(o["o"])) == (n_o, 3) and tuple(np.shape(o["b"])) == (n_b, 4) and o["stop"] == 2 \
            and str(o["sel"]).split() == ["bynum", "2:4"]
        acc.structural("tool_holds_grids_of_the_right_sizes", ok, detail=(np.shape(o["t"]), np.shape(o["o"]), np.shape(o["b"]), o["stop"], o["sel"]), cex=cexinfo)
        if not ok:
            continue
        tol = z3.RealVal("1/10000000")      # the decomposition rounds to 8 decimals
        claims = [(f"tool_radii_are_its_own_grid[{k}]", z3.And(z(o["t"][k]) - rB[k] <= tol, rB[k] - z(o["t"][k]) <= tol)) for k in range(n_t)]
        claims += [(f"tool_directions_are_its_own_grid[{i},{c}]", z3.And(z(o["o"][i, c]) - O[i][c] <= tol, O[i][c] - z(o["o"][i, c]) <= tol)) for i in range(n_o) for c in range(3)]
        claims += [(f"tool_rotations_are_its_own_grid[{i},{c}]", z3.And(z(o["b"][i, c]) - Q[i][c] <= tol, Q[i][c] - z(o["b"][i, c]) <= tol)) for i in range(n_b) for c in range(4)]
        v = o["t_index"]
        margin = z3.RealVal("1/1000")        # the probe keeps clear of the shell boundaries (rounded radii move them by < 1e-7)
        if isinstance(v, float) and math.isnan(v):
            claims.append(("probe_beyond_the_outer_boundary_of_its_own_grid", d > Rb[-1] - margin))
        else:
            t = int(v)
            lo = Rb[t - 1] if t > 0 else z3.RealVal(0)
            claims.append(("probe_assigned_to_the_shell_of_its_own_grid", z3.And(d >= lo - margin, d <= Rb[t] + margin)))
        acc.add(prover.prove_all(path.premises, claims), make_cex=lambda r_: {})
    return acc.result(eng.stats, prover.stats)


PIPE_MASSES = [12.0, 1.0, 16.0]


def _pipeline(T, universe, reference, radii, include_outliers, analysis=None):
    """the radial assignment end to end on one AssignmentTool: the REAL __init__ (second-molecule selection, first molecule = everything
    else, trajectory centred on the first molecule's centre of mass) and the REAL _get_t_assignments over the frames"""
    o_ = np.array([[0.0, 0.0, 1.0]])
    b_ = np.array([[0.0, 0.0, 0.0, 1.0]])
    names = dict(from_full_array_to_o_b_t=lambda arr: (o_, b_, radii))
    if analysis is not None:
        names["AnalysisFromFunction"] = analysis
    with bound(T, **names):
        at = T.AssignmentTool(np.zeros((1, 7)), universe, reference, include_outliers=include_outliers)
        return at._get_t_assignments()


def run_pipeline(shape):
    """Radial assignment through the tool's own preparation of the trajectory: molecule 1 (n1 atoms) and molecule 2 (n2 atoms, n1 != n2) sit at
    SYMBOLIC heights on the z axis (masses fixed), molecule 2's centre of mass above molecule 1's.  The frame must be assigned to the shell
    that contains the distance between the two centres of mass -- whatever the tool does to find, select and centre the molecules."""
    import molgri.molecules.transitions as T
    import molgri.space.utils as U
    from symx.core import sym_float
    from symx.models import FMemUniverse, FTopology
    n_t, n1, n2, inc = shape["n_t"], shape["n1"], shape["n2"], shape["include_outliers"]
    zs = [z3.Real(f"z{a}") for a in range(n1 + n2)]
    r = [z3.Real(f"r{k}") for k in range(n_t)]
    masses = PIPE_MASSES[:n1 + n2]
    eng = Engine()
    eng.decide_timeout_ms = 3000
    prover = Prover(timeout_ms=20000, budget_s=300)
    acc = Acc(shape)
    com1 = z3.Sum([masses[a] * zs[a] for a in range(n1)]) / sum(masses[:n1])
    com2 = z3.Sum([masses[a] * zs[a] for a in range(n1, n1 + n2)]) / sum(masses[n1:n1 + n2])
    d = com2 - com1
    eng.assume_global(r[0] > 0, *[r[k + 1] > r[k] for k in range(n_t - 1)], d > 0)
    for x in r:
        eng.declare_sign(x, "+")
    proxy = NPProxy()

    def body():
        top = FTopology(masses, [f"X{a}" for a in range(n1 + n2)])
        u = FMemUniverse(top, sarr([[[0.0, 0.0, SR(zv)] for zv in zs]]))
        ref = FMemUniverse(FTopology(masses[n1:], [f"X{a}" for a in range(n1, n1 + n2)]), sarr([[[0.0, 0.0, float(a)] for a in range(n2)]]))
        with bound(T, np=proxy, print=noprint, cdist=fcdist, pd=PdStub, trans=TransStub, float=sym_float), bound(U, np=proxy):
            return _pipeline(T, u, ref, sarr([SR(x) for x in r]), inc, analysis=FakeAnalysis)

    Rb, _, _, _, _ = position_spec(1, n_t, [z3.RealVal(1)], {}, {}, r, zero=z3.RealVal(0))
    for path in eng.explore(body):
        acc.begin(prover, path)
        cexinfo = {"model": _path_model(path)}
        if path.kind == "exc":
            acc.structural("no_exception", False, detail=repr(path.value) + (path.tb or "")[-700:], cex=dict(cexinfo, kind="exception", exc=type(path.value).__name__))
            continue
        if acc.reachable is not True:
            acc.reach(prover.satisfiable(path.premises))
        res = np.asarray(path.value, dtype=object).reshape(-1)
        acc.structural("one_index_per_frame", len(res) == 1, detail=len(res), cex=cexinfo)
        if len(res) != 1:
            continue
        v = res[0]
        if isinstance(v, float) and math.isnan(v):
            claim = (d > Rb[-1]) if not inc else z3.BoolVal(False)
            acc.add([prover.prove("outlier_iff_beyond_the_outer_boundary", path.premises, claim)], make_cex=lambda r_: {})
            continue
        t = int(v)
        lo = Rb[t - 1] if t > 0 else z3.RealVal(0)
        shell = z3.And(d >= lo, d <= Rb[t]) if (not inc or t < n_t - 1) else d >= lo
        acc.add([prover.prove("shell_contains_the_distance_between_the_centres_of_mass", path.premises, shell)], make_cex=lambda r_: {})
    return acc.result(eng.stats, prover.stats)


def replay_pipeline(cex):
    """the same end-to-end run on real MDAnalysis (real selection, real on-the-fly transformation, real AnalysisFromFunction)"""
    import contextlib, io, warnings
    import MDAnalysis as mda
    from MDAnalysis.coordinates.memory import MemoryReader
    import molgri.molecules.transitions as T
    from symx.models import real_universe
    s = cex["shape"]
    model = cex.get("model", {}) or {}
    n_t, n1, n2, inc = s["n_t"], s["n1"], s["n2"], s["include_outliers"]
    masses = PIPE_MASSES[:n1 + n2]
    zs = [fval(model, f"z{a}", 0.3 * a + (2.0 if a >= n1 else 0.0)) for a in range(n1 + n2)]
    r = [fval(model, f"r{k}", 1.0 + 0.8 * k) for k in range(n_t)]
    com1 = sum(m * z_ for m, z_ in zip(masses[:n1], zs[:n1])) / sum(masses[:n1])
    com2 = sum(m * z_ for m, z_ in zip(masses[n1:], zs[n1:])) / sum(masses[n1:])
    d = com2 - com1
    if d <= 0 or r[0] <= 0 or any(b <= a for a, b in zip(r, r[1:])):
        return {"reproduced": False, "detail": "model outside the stated assumptions"}
    Rb = [(r[k] + r[k + 1]) / 2 for k in range(n_t - 1)] + [r[-1] + (r[-1] - r[-2]) / 2]
    if min(abs(d - x) for x in Rb) < 1e-4 * max(1.0, d):
        return {"reproduced": False, "detail": "model sits on a shell boundary (float32 coordinates cannot resolve it)"}
    base = real_universe([[0.0, 0.0, z_] for z_ in zs], masses, [f"X{a}" for a in range(n1 + n2)])
    u = mda.Universe(base._topology, np.array([[[0.0, 0.0, z_] for z_ in zs]], dtype=np.float32), format=MemoryReader)
    ref = real_universe([[0.0, 0.0, float(a)] for a in range(n2)], masses[n1:], [f"X{a}" for a in range(n1, n1 + n2)])
    try:
        with warnings.catch_warnings(), contextlib.redirect_stdout(io.StringIO()):
            warnings.simplefilter("ignore")
            res = np.asarray(_pipeline(T, u, ref, np.array(r, dtype=float), inc), dtype=float).reshape(-1)
    except Exception as e:  # noqa: BLE001
        return {"reproduced": True, "detail": f"raised {e!r}"}
    exp = float("nan") if (d > Rb[-1] and not inc) else float(min(int(np.searchsorted(Rb, d)), n_t - 1))
    ok = len(res) == 1 and ((math.isnan(exp) and math.isnan(res[0])) or (not math.isnan(exp) and not math.isnan(res[0]) and int(res[0]) == int(exp)))
    return {"reproduced": not ok, "detail": f"molecules at heights {zs} (centres of mass {com1:.4f}, {com2:.4f}; distance {d:.4f}), radii {r}: assigned {res.tolist()}, expected {exp}"}


def _path_model(path):
    s_ = z3.Solver()
    s_.set("timeout", 5000)
    s_.add(*path.premises)
    # prefer a model in which every rounding is exact: it carries over to the floats of the replay
    from symx.core import uf_rint
    nice = []
    seen = set()

    def walk(t):
        if t.get_id() in seen:
            return
        seen.add(t.get_id())
        if z3.is_app(t):
            if t.decl().name() == uf_rint().name() and t.num_args() == 1:
                nice.append(t == t.arg(0))
            for ch in t.children():
                walk(ch)
    for p_ in path.premises:
        walk(p_)
    s_.push()
    s_.add(*nice)
    if s_.check() != z3.sat:
        s_.pop()
        if s_.check() != z3.sat:
            return {}
    from symx.prove import model_to_dict
    return {k: (str(v) if not isinstance(v, bool) else v) for k, v in model_to_dict(s_.model()).items()}


def run_compose(shape):
    import molgri.molecules.transitions as T
    import molgri.space.utils as U
    n_t, n_o, n_b, nf, inc = shape["n_t"], shape["n_o"], shape["n_b"], shape["frames"], shape["include_outliers"]
    r = [z3.Real(f"r{k}") for k in range(n_t)]
    C = [[z3.Real(f"c{f}_{k}") for k in range(3)] for f in range(nf)]
    # axis-aligned direction grid (concrete): keeps the direction decision linear here; the symbolic-direction case is `direction`
    o = np.array([[0.0, 0.0, 1.0], [0.0, 0.0, -1.0]])[:n_o]
    bstub = np.array([(f * 2 + 1) % n_b for f in range(nf)])
    frames_variant = shape.get("rotation") == "frames"
    eng = Engine()
    eng.decide_timeout_ms = 2000
    prover = Prover(timeout_ms=20000, budget_s=600)
    acc = Acc(shape)
    eng.assume_global(r[0] > 0, *[r[k + 1] > r[k] for k in range(n_t - 1)], *[z3.Or(cf[2] > 0, cf[2] < 0) for cf in C])
    proxy = NPProxy()

    def body():
        with bound(T, np=proxy, print=noprint, cdist=fcdist, AnalysisFromFunction=FakeAnalysis, pd=PdStub, Pool=SerialPool), bound(U, np=proxy):
            at = make_tool(T, t_array=sarr([SR(x) for x in r]), o_array=o, b_array=ROT_Q[:n_b].copy() if frames_variant else np.zeros((n_b, 4)),
                           include_outliers=inc, cartesian_grid=True)
            traj = FakeTraj(nf)
            coms = [sarr([SR(x) for x in cf]) for cf in C]
            at.stop = nf
            if frames_variant:
                _rotation_bookkeeping(at, traj, coms, bstub)
            else:
                at.trajectory_universe = FakeUniverse(traj, FrameAG(traj, coms))      # the frames of this run (centre of mass per frame symbolic)
                at._get_quaternion_assignments = _rotation_stub(bstub)
            return at.get_full_assignments()

    Rb, _, _, _, _ = position_spec(1, n_t, [z3.RealVal(1)], {}, {}, r, zero=z3.RealVal(0))
    for path in eng.explore(body):
        acc.begin(prover, path)
        if path.kind == "exc":
            if TOOL_BYPASSED:
                bypass_guard(path.value)
            acc.structural("no_exception", False, detail=repr(path.value) + (path.tb or "")[-700:], cex={"kind": "exception", "exc": type(path.value).__name__})
            continue
        if acc.reachable is not True:
            acc.reach(prover.satisfiable(path.premises[: n_t + nf]))
        res = np.asarray(path.value, dtype=object).reshape(-1)
        acc.structural("one_index_per_frame", len(res) == nf, detail=len(res))
        if len(res) != nf:
            continue
        # distances: the sqrt variables in order of creation, two per frame at most (cached per argument)
        for f in range(nf):
            n2 = z3.Sum([x * x for x in C[f]])
            d = path.sqrt_of(n2)
            v = res[f]
            if d is None:
                acc.structural(f"distance_computed[{f}]", False, detail="norm of the centre of mass not found on the path")
                continue
            facts = [d >= 0, d * d == n2]
            if isinstance(v, float) and math.isnan(v):
                claim = (d > Rb[-1]) if not inc else z3.BoolVal(False)
                acc.add([prover.prove(f"nan_iff_outlier[{f}]", path.premises + facts, claim)], make_cex=lambda r_: {})
                continue
            idx = int(v)
            acc.structural(f"index_is_integral[{f}]", float(v) == idx and 0 <= idx < n_t * n_o * n_b, detail=v)
            pos, b = divmod(idx, n_b)
            t, oi = divmod(pos, n_o)
            acc.structural(f"rotation_index_passed_through[{f}]", b == int(bstub[f]), detail=(b, int(bstub[f])),
                           cex=None if b == int(bstub[f]) else {"model": _path_model(path)})
            lo = Rb[t - 1] if t > 0 else z3.RealVal(0)
            shell = z3.And(d >= lo, d <= Rb[t]) if (not inc or t < n_t - 1) else d >= lo
            direction = (C[f][2] > 0) if oi == 0 else (C[f][2] < 0)
            acc.add(prover.prove_all(path.premises + facts, [(f"shell_of_frame[{f}]", shell), (f"direction_of_frame[{f}]", direction if n_o == 2 else z3.BoolVal(True))]),
                    make_cex=lambda r_: {})
    return acc.result(eng.stats, prover.stats)



# ------------------------------------------------------------------------------------------ nearest grid rotation, symbolic orientation
# rotation grids (scalar-last unit quaternions, all in the canonical half the package's grids live in)
_S = math.sqrt(0.5)
NEAREST_GRIDS = [
    [[0.0, 0.0, 0.0, 1.0], [1.0, 0.0, 0.0, 0.0], [0.0, 1.0, 0.0, 0.0]],                                   # identity, half turns about x and y
    [[0.0, 0.0, 0.0, 1.0], [0.6, 0.0, 0.0, 0.8], [0.0, 0.6, 0.0, 0.8], [0.0, 0.0, 1.0, 0.0]],             # identity, 74-degree turns about x, y, half turn about z
    [[0.5, 0.5, 0.5, 0.5], [0.5, -0.5, 0.5, 0.5], [0.0, 0.6, 0.0, 0.8]],
    [[0.0, 0.0, 0.0, 1.0], [0.6, 0.0, 0.0, 0.8], [0.0, 0.0, 0.6, 0.8], [0.0, 0.6, 0.8, 0.0], [1.0, 0.0, 0.0, 0.0]],
]


def _unit_matrix(p):
    from symx.models import rotation_matrix_terms_unit
    return rotation_matrix_terms_unit(p)


def _nearest_tool(T, at, P_rows_are_axes):
    """one frame, centre of mass inside the grid; molecule 2's principal axes in that frame are the rows of the given matrix"""
    traj = FakeTraj(1)
    at.stop = 1
    at.trajectory_universe = FakeUniverse(traj, FrameAG(traj, [np.array([0.0, 0.0, 1.2])], [P_rows_are_axes]))
    at.reference_universe = RefAxes()
    at._determine_positive_directions = lambda universe: np.array([1.0, 1.0, 1.0])
    return at


class FrameAGSym(FrameAG):
    def principal_axes(self, **k):
        return self.axes[self.traj.frame].copy()


def run_nearest(shape):
    """'b is the grid rotation with the smallest rotation angle to the molecule's actual rotation': the REAL _get_quaternion_assignments /
    _get_rotation_matrices / _complex_mdanalysis_func on ONE frame in which the molecule's rotation relative to its reference is an
    arbitrary SYMBOLIC unit quaternion p (its rotation matrix M(p) enters through the principal-axes stand-in); the rotation grid is
    concrete.  scipy's Rotation is the model of symx.models (as_matrix, from_matrix, magnitude = arccos((tr - 1)/2) as a monotone
    uninterpreted function, as_quat with scipy's sign rule).  Obligation: the returned index b maximises trace(R_b M(p)^T), i.e.
    minimises the angle of the relative rotation -- for every p."""
    import molgri.molecules.transitions as T
    import molgri.space.utils as U
    from symx.models import FRot
    from symx.core import sym_float
    Q = NEAREST_GRIDS[shape["grid"]]
    n_b = len(Q)
    p = [z3.Real(f"p{k}") for k in range(4)]
    eng = Engine()
    eng.decide_timeout_ms = 4000
    prover = Prover(timeout_ms=20000, budget_s=400)
    acc = Acc(shape)
    eng.assume_global(z3.Sum([x * x for x in p]) == 1, *[z3.And(x >= -1, x <= 1) for x in p])
    proxy = NPProxy()
    Mp = _unit_matrix(p)                                   # z3 terms
    # trace(R_i M(p)^T) = sum_jk R_i[j][k] * M(p)[j][k]; R_i as the model of Rotation(q).as_matrix() gives it (the same floats the code sees)
    Rb = np.asarray(FRot(np.array(Q, dtype=float)).as_matrix(), dtype=object)
    tr = []
    for i in range(n_b):
        acc_ = 0
        for j in range(3):
            for k in range(3):
                acc_ = acc_ + Rb[i][j][k] * SR(Mp[j][k])
        tr.append(z(acc_))

    def body():
        with bound(T, np=proxy, print=noprint, cdist=fcdist, AnalysisFromFunction=FakeAnalysis, pd=PdStub, Pool=SerialPool, Rotation=FRot, float=sym_float), \
                bound(U, np=proxy):
            at = make_tool(T, t_array=np.array([1.0, 2.0]), o_array=np.array([[0.0, 0.0, 1.0]]), b_array=np.array(Q, dtype=float), include_outliers=True)
            axes = sarr([[SR(Mp[k][j]) for k in range(3)] for j in range(3)])        # rows = principal axes = columns of M(p)
            traj = FakeTraj(1)
            at.stop = 1
            at.trajectory_universe = FakeUniverse(traj, FrameAGSym(traj, [np.array([0.0, 0.0, 1.2])], [axes]))
            at.reference_universe = RefAxes()
            at._determine_positive_directions = lambda universe: np.array([1.0, 1.0, 1.0])
            return at._get_quaternion_assignments()

    for path in eng.explore(body):
        acc.begin(prover, path)
        if path.kind == "exc":
            acc.structural("no_exception", False, detail=repr(path.value) + (path.tb or "")[-700:], cex={"kind": "exception", "exc": type(path.value).__name__, "model": _path_model(path)})
            continue
        if acc.reachable is not True:
            acc.reach(prover.satisfiable(path.premises))
        res = np.asarray(path.value, dtype=object).reshape(-1)
        ok = len(res) == 1 and not isinstance(res[0], SR) and float(res[0]) == int(res[0]) and 0 <= int(res[0]) < n_b
        acc.structural("one_rotation_index_in_range", ok, detail=repr(res), cex=None if ok else {"model": _path_model(path)})
        if not ok:
            continue
        b = int(res[0])
        claims = [(f"no_grid_rotation_is_nearer[{i}]", tr[b] >= tr[i]) for i in range(n_b) if i != b]
        acc.add(prover.prove_all(path.premises, claims), make_cex=lambda r_: {"model": r_.model} if getattr(r_, "model", None) else {})
    return acc.result(eng.stats, prover.stats)


def replay_nearest(cex):
    """the same single frame on the real scipy / numpy: orientations from the solver's model first, then a spread of rotations"""
    import contextlib, io
    from scipy.spatial.transform import Rotation as R_
    import molgri.molecules.transitions as T
    Q = np.array(NEAREST_GRIDS[cex["shape"]["grid"]], dtype=float)
    model = cex.get("model", {}) or {}
    rng = np.random.default_rng(11)
    cands = []
    pm = [fval(model, f"p{k}", None) for k in range(4)]
    if all(x is not None for x in pm) and np.linalg.norm(pm) > 1e-9:
        cands.append(np.array(pm, dtype=float) / np.linalg.norm(pm))
    for _ in range(300):
        v = rng.normal(size=4)
        cands.append(v / np.linalg.norm(v))
    for q in Q:                       # near the grid rotations and their other sign
        for sg in (1.0, -1.0):
            v = sg * q + rng.normal(scale=0.05, size=4)
            cands.append(v / np.linalg.norm(v))
    bad = []
    old = (T.AnalysisFromFunction, T.Pool)
    T.AnalysisFromFunction, T.Pool = FakeAnalysis, SerialPool
    try:
        for pq in cands:
            M = R_.from_quat(pq).as_matrix()
            at = make_tool(T, t_array=np.array([1.0, 2.0]), o_array=np.array([[0.0, 0.0, 1.0]]), b_array=Q.copy(), include_outliers=True, real=True)
            _nearest_tool(T, at, M.T.copy())
            try:
                with contextlib.redirect_stdout(io.StringIO()):
                    got = np.asarray(at._get_quaternion_assignments()).reshape(-1)
            except Exception as e:  # noqa: BLE001
                return {"reproduced": True, "detail": f"orientation {pq.tolist()}: raised {e!r}"}
            ang = np.array([R_.from_matrix(R_.from_quat(q).as_matrix() @ M.T).magnitude() for q in Q])
            if len(got) != 1 or not (0 <= int(got[0]) < len(Q)):
                bad.append(f"orientation {pq.tolist()}: result {got.tolist()}")
            elif ang[int(got[0])] > ang.min() + 1e-6:
                bad.append(f"orientation (x,y,z,w) = {np.round(pq, 6).tolist()}: assigned grid rotation {int(got[0])} at angle {ang[int(got[0])]:.4f} rad, "
                           f"grid rotation {int(ang.argmin())} is at {ang.min():.4f} rad")
    finally:
        T.AnalysisFromFunction, T.Pool = old
    return {"reproduced": bool(bad), "detail": str(bad[:3])}

# ------------------------------------------------------------------------------------------ replay on the real code
class RealAG:
    def __init__(self, com):
        self.com = np.asarray(com, dtype=float)

    def center_of_mass(self, **k):
        return self.com.copy()


def replay_tools(cex):
    """the same two-tool history on the real MDAnalysis / scipy / numpy with the model's radii"""
    import contextlib, io, warnings
    import MDAnalysis as mda
    from MDAnalysis.coordinates.memory import MemoryReader
    import molgri.molecules.transitions as T
    from symx.models import real_universe
    s = cex["shape"]
    model = cex.get("model", {}) or {}
    n_t, n_o, n_b = s["n_t"], s["n_o"], s["n_b"]
    rA = [fval(model, f"ra{k}", 1.0 + 0.7 * k) for k in range(n_t)]
    rB = [fval(model, f"rb{k}", 1.3 + 0.9 * k) for k in range(n_t)]
    d = fval(model, "d", 1.0)
    if any(b - a <= 1e-6 for r in (rA, rB) for a, b in zip([0.0] + r, r)):
        return {"reproduced": False, "detail": "model radii are not increasing by more than 1e-6"}
    O, Q = TOOLS_O[n_o], TOOLS_Q[n_b]

    def mk_universe():
        base = real_universe([[0.0, 0.0, 0.0], [0.0, 0.0, 1.0], [0.0, 0.5, 1.5]], [12.0, 1.0, 16.0], ["C", "H", "O"])
        frames = np.array([[[0.0, 0.0, 0.0], [0.0, 0.0, 1.0 + f], [0.0, 0.5, 1.5 + f]] for f in range(2)], dtype=np.float32)
        return mda.Universe(base._topology, frames, format=MemoryReader), real_universe([[0.0, 0.0, 0.0], [0.0, 0.5, 0.5]], [1.0, 16.0], ["H", "O"])
    try:
        with warnings.catch_warnings(), contextlib.redirect_stdout(io.StringIO()):
            warnings.simplefilter("ignore")
            o = _tools_history(T, mk_universe, np.array(_grid_rows(rA, O, Q), dtype=float), np.array(_grid_rows(rB, O, Q), dtype=float), RealAG([0.0, 0.0, d]))
    except Exception as e:  # noqa: BLE001
        return {"reproduced": True, "detail": f"two tools in one process (radii {rA} then {rB}): raised {e!r}"}
    bad = []
    if np.shape(o["t"]) != (n_t,) or not np.allclose(np.asarray(o["t"], dtype=float), rB, atol=2e-7):
        bad.append(f"second tool's radii {np.asarray(o['t'], dtype=float).tolist()} are not its grid's {rB} (first tool: {rA})")
    if np.shape(o["o"]) != (n_o, 3) or not np.allclose(np.asarray(o["o"], dtype=float), O, atol=2e-7):
        bad.append("second tool's directions are not its grid's")
    if np.shape(o["b"]) != (n_b, 4) or not np.allclose(np.asarray(o["b"], dtype=float), Q, atol=2e-7):
        bad.append("second tool's rotations are not its grid's")
    if not bad:
        Rb = [(rB[k] + rB[k + 1]) / 2 for k in range(n_t - 1)] + [rB[-1] + (rB[-1] - rB[-2]) / 2]
        v = o["t_index"]
        if isinstance(v, float) and math.isnan(v):
            if d <= Rb[-1] - 1e-3:
                bad.append(f"probe at distance {d} inside the outer boundary {Rb[-1]} is an outlier")
        else:
            t = int(v)
            lo = Rb[t - 1] if t > 0 else 0.0
            if not (lo - 1e-3 <= d <= Rb[t] + 1e-3):
                bad.append(f"probe at distance {d} assigned to shell {t} = [{lo}, {Rb[t]}]")
    return {"reproduced": bool(bad), "detail": str(bad[:3])}


def replay(cex):
    import contextlib, io
    import molgri.molecules.transitions as T
    s = cex["shape"]
    if s["kind"] == "tools":
        return replay_tools(cex)
    if s["kind"] == "pipeline":
        return replay_pipeline(cex)
    if s["kind"] == "nearest":
        return replay_nearest(cex)
    model = cex.get("model", {}) or {}
    rng = np.random.default_rng(2)
    bad = []

    class RAG:
        def __init__(self, com):
            self.com = np.asarray(com, dtype=float)

        def center_of_mass(self, **k):
            return self.com.copy()
    if s["kind"] == "radial":
        n_t = s["n_t"]
        r = [fval(model, f"r{k}", None) for k in range(n_t)]
        if any(x is None for x in r) or r[0] <= 0 or any(r[k + 1] <= r[k] for k in range(n_t - 1)):
            r = list(np.cumsum([1.0 + 0.3 * k for k in range(n_t)]))
        r = np.array(r, dtype=float)
        Rb = np.concatenate([(r[:-1] + r[1:]) / 2, [r[-1] + (r[-1] - r[-2]) / 2]])
        coms = [np.array([fval(model, f"c{k}", 0.3) for k in range(3)])]
        for dd in np.concatenate([np.linspace(0.01, Rb[-1] * 1.3, 41), Rb * 0.999, Rb * 1.001]):
            v = rng.normal(size=3)
            coms.append(v / np.linalg.norm(v) * dd)
        at = make_tool(T, t_array=r, include_outliers=s["include_outliers"], real=True)
        for c in coms:
            d = float(np.linalg.norm(c))
            got = at._t_assignment_function(RAG(c))
            if min(abs(d - Rb)) < 1e-9 * max(1.0, d):
                continue
            exp = float("nan") if (d > Rb[-1] and not s["include_outliers"]) else int(min(np.searchsorted(Rb, d), n_t - 1))
            if (isinstance(got, float) and math.isnan(got)) != (isinstance(exp, float) and math.isnan(exp)) or (not (isinstance(exp, float) and math.isnan(exp)) and int(got) != exp):
                bad.append(f"radii {r.tolist()} distance {d}: got {got} expected {exp}")
        return {"reproduced": bool(bad), "detail": str(bad[:3])}
    if s["kind"] == "direction":
        n_o = s["n_o"]
        sets = []
        o = np.array([[fval(model, f"o{j}_{k}", float(rng.normal())) for k in range(3)] for j in range(n_o)])
        if np.all(np.linalg.norm(o, axis=1) > 1e-9):
            sets.append((o / np.linalg.norm(o, axis=1)[:, None], np.array([fval(model, f"c{k}", float(rng.normal())) for k in range(3)])))
        for _ in range(200):
            o = rng.normal(size=(n_o, 3))
            sets.append((o / np.linalg.norm(o, axis=1)[:, None], rng.normal(size=3) * rng.uniform(0.1, 5)))
        at = make_tool(T, cartesian_grid=s["cartesian"], real=True)
        for o, c in sets:
            if np.linalg.norm(c) < 1e-9:
                continue
            at.o_array = o
            got = int(np.asarray(at._o_assignment_function(RAG(c))).reshape(-1)[0])
            dots = o @ c
            if dots[got] < dots.max() - 1e-9 * max(1.0, abs(dots).max()):
                bad.append(f"o={o.tolist()} c={c.tolist()}: got {got}, best {int(dots.argmax())}")
        return {"reproduced": bool(bad), "detail": str(bad[:2])}
    # compose: real AssignmentTool methods with the same stubs, concrete frames
    n_t, n_o, n_b, nf, inc = s["n_t"], s["n_o"], s["n_b"], s["frames"], s["include_outliers"]
    frames_variant = s.get("rotation") == "frames"
    r0 = np.array([1.0, 2.0, 3.5][:n_t])
    o = np.array([[0.0, 0.0, 1.0], [0.0, 0.0, -1.0]])[:n_o]
    bstub = np.array([(f * 2 + 1) % n_b for f in range(nf)])
    trials = []
    rm = [fval(model, f"r{k}", None) for k in range(n_t)]
    cm = [[fval(model, f"c{f}_{k}", None) for k in range(3)] for f in range(nf)]
    if all(x is not None for x in rm) and all(x is not None for c in cm for x in c) and rm[0] > 0 and all(b_ > a_ for a_, b_ in zip(rm, rm[1:])):
        trials.append((np.array(rm, dtype=float), [np.array(c, dtype=float) for c in cm]))      # the solver's model first
    for trial in range(60):
        trials.append((r0, [rng.normal(size=3) * rng.uniform(0.2, 3.5) for _ in range(nf)]))
    for r, coms in trials:
        Rb = np.concatenate([(r[:-1] + r[1:]) / 2, [r[-1] + (r[-1] - r[-2]) / 2]])
        if any(abs(c[2]) < 1e-6 or min(abs(np.linalg.norm(c) - Rb)) < 1e-6 for c in coms):
            continue
        at = make_tool(T, t_array=r, o_array=o, b_array=ROT_Q[:n_b].copy() if frames_variant else np.zeros((n_b, 4)), include_outliers=inc,
                       cartesian_grid=True, real=True)
        traj = FakeTraj(nf)
        at.stop = nf
        if frames_variant:
            _rotation_bookkeeping(at, traj, [np.asarray(c) for c in coms], bstub)
        else:
            at.trajectory_universe = FakeUniverse(traj, FrameAG(traj, [np.asarray(c) for c in coms]))
            at._get_quaternion_assignments = _rotation_stub(bstub)
        old = (T.AnalysisFromFunction, T.Pool)
        T.AnalysisFromFunction, T.Pool = FakeAnalysis, SerialPool
        try:
            with contextlib.redirect_stdout(io.StringIO()):
                got = np.asarray(at.get_full_assignments(), dtype=float).reshape(-1)
        except Exception as e:  # noqa: BLE001
            return {"reproduced": True, "detail": f"raised {e!r}"}
        finally:
            T.AnalysisFromFunction, T.Pool = old
        if len(got) != nf:
            return {"reproduced": True, "detail": f"{len(got)} indices for {nf} frames"}
        for f, c in enumerate(coms):
            d = np.linalg.norm(c)
            if d > Rb[-1] and not inc:
                exp = float("nan")
            else:
                t = int(min(np.searchsorted(Rb, d), n_t - 1))
                exp = (t * n_o + (0 if (c[2] > 0 or n_o == 1) else 1)) * n_b + bstub[f]
            if (math.isnan(got[f]) != (isinstance(exp, float) and math.isnan(exp))) or (not math.isnan(got[f]) and got[f] != exp):
                bad.append(f"radii {r.tolist()} centres of mass {[c_.tolist() for c_ in coms]} frame {f}: got {got[f]} expected {exp}")
    return {"reproduced": bool(bad), "detail": str(bad[:3])}


def finding_key(cex):
    return f"C11:{cex['shape']['kind']}:{cex['obligation'].split('[')[0]}"


def selftest(seed):
    from symx.models import models_selftest
    return models_selftest(seed, rounds=2)
