"""stubs of the compiled geometry (Qhull) with written contracts, generic over the element type.

`DirStub` -- a direction grid (SphereGrid3Dim) whose unit-sphere geometry is *arbitrary*: areas a_o > 0, and arc
lengths / great-circle angles > 0 on one symmetric adjacency pattern.  With `spmod=symx.sparse, wrap=SR` it feeds the
symbolic run, with `spmod=scipy.sparse, wrap=float` the same stub feeds the replay of a counterexample on the real
libraries.
"""
import numpy as np


class _Vor:
    def __init__(self, areas):
        self._areas = areas

    def get_voronoi_volumes(self, **k):
        return self._areas.copy()


class DirStub:
    def __init__(self, n_o, pattern, area, arc, ang, spmod, mkarr, coords=None):
        """pattern: list of (i<j); area: list; arc/ang: dict keyed by (i,j) both orders; mkarr: list -> array"""
        self.n = n_o
        self.sp = spmod
        self.mkarr = mkarr
        self.area, self.arc, self.ang = area, arc, ang
        self.keys = sorted(arc)
        self.coords = coords if coords is not None else _generic_dirs(n_o)

    def get_N(self):
        return self.n

    def __len__(self):
        return self.n

    def _m(self, vals):
        return self.sp.coo_array((self.mkarr(vals), ([k[0] for k in self.keys], [k[1] for k in self.keys])),
                                 shape=(self.n, self.n))

    def get_voronoi_adjacency(self, **k):
        return self._m([True for _ in self.keys]) if self.keys else self.sp.coo_array(np.zeros((self.n, self.n), dtype=bool))

    def get_cell_borders(self, **k):
        return self._m([self.arc[k_] for k_ in self.keys]) if self.keys else self.sp.coo_array(np.zeros((self.n, self.n)))

    def get_center_distances(self, **k):
        return self._m([self.ang[k_] for k_ in self.keys]) if self.keys else self.sp.coo_array(np.zeros((self.n, self.n)))

    def get_spherical_voronoi(self):
        return _Vor(self.mkarr(list(self.area)))

    def get_grid_as_array(self, only_upper=False):
        return self.coords.copy()

    def get_name(self, with_dim=False):
        return f"stub_{self.n}"


def _generic_dirs(n):
    """n fixed generic unit vectors (only their count matters to the code under test)"""
    rng = np.random.default_rng(12345)
    v = rng.normal(size=(n, 3))
    return v / np.linalg.norm(v, axis=1)[:, None]


def position_spec(n_o, n_t, area, arc, ang, r, zero=0):
    """closed forms of C05 written from the property statement; works on z3 terms and on floats alike.

    returns (R, volumes[p], adj[p][q], border[p][q], dist[p][q]) with p = k*n_o + o (shell-major).
    """
    R = [(r[k] + r[k + 1]) / 2 for k in range(n_t - 1)]
    R.append(r[-1] + (r[-1] - r[-2]) / 2 if n_t > 1 else 2 * r[0])
    Rlow = [zero] + R[:-1]
    n = n_o * n_t
    vol = [None] * n
    adj = [[0] * n for _ in range(n)]
    bor = [[zero] * n for _ in range(n)]
    dis = [[zero] * n for _ in range(n)]
    for p in range(n):
        k, i = divmod(p, n_o)
        vol[p] = area[i] * (R[k] * R[k] * R[k] - Rlow[k] * Rlow[k] * Rlow[k]) / 3
        for q in range(n):
            l, j = divmod(q, n_o)
            if k == l and (i, j) in arc:
                adj[p][q] = 1
                bor[p][q] = arc[(i, j)] * (R[k] * R[k] - Rlow[k] * Rlow[k]) / 2
                dis[p][q] = r[k] * ang[(i, j)]
            elif i == j and abs(k - l) == 1:
                lo = min(k, l)
                adj[p][q] = 1
                bor[p][q] = area[i] * R[lo] * R[lo]
                dis[p][q] = r[lo + 1] - r[lo]
    return R, vol, adj, bor, dis


def direction_contract():
    """DirStub stands for the direction grid's compiled geometry (scipy SphericalVoronoi + the package's region bookkeeping): adjacency,
    border arcs and centre angles on ONE symmetric stored pattern in ONE entry order, positive values, positive cell areas that add up
    to the sphere.  That contract is re-checked here on small real direction grids (a broken contract is a harness error, never a pass)."""
    import contextlib, io
    import molgri.space.rotobj as RO
    n = 0
    with contextlib.redirect_stdout(io.StringIO()):
        for alg, Ns in (("ico", (4, 5, 7, 12)), ("cube3D", (4, 6, 9)), ("randomS", (5, 8))):
            for N in Ns:
                g = RO.SphereGrid3DFactory.create(alg, N)
                A = g.get_voronoi_adjacency(only_upper=False, include_opposing_neighbours=False).tocoo()
                B, D = g.get_cell_borders().tocoo(), g.get_center_distances().tocoo()
                ar = np.asarray(g.get_spherical_voronoi().get_voronoi_volumes(), dtype=float)
                assert all(np.array_equal(A.row, M.row) and np.array_equal(A.col, M.col) for M in (B, D)), (alg, N, "the three matrices differ in pattern or entry order")
                assert np.allclose(B.toarray(), B.toarray().T) and np.allclose(D.toarray(), D.toarray().T) and (A.toarray() == A.toarray().T).all(), (alg, N, "a matrix is not symmetric")
                assert (B.data > 0).all() and (D.data > 0).all() and (ar > 0).all() and len(ar) == N, (alg, N, "a border / distance / area is not positive")
                assert abs(ar.sum() / (4 * np.pi) - 1) < 1e-6, (alg, N, "cell areas do not add up to the sphere", ar.sum())
                n += 1
    return n
