"""C09 -- full-grid row order is position-major, rotation-minor (decomposition part: outside, see DESIGN).

Real `FullGrid.get_full_grid_as_array`, `get_position_index`, `get_quaternion_index`, `__len__`,
`PositionGrid.get_position_grid_as_array`, `_t_and_o_2_positions` run on symbolic direction coordinates, quaternions and
radii; the ROW INDEX n is a symbolic integer in the obligations.
"""
import itertools

import numpy as np
import z3

from symx.core import Engine, SR, noprint
from symx.arr import sarr
from symx import sparse as sp
from symx.npproxy import NPProxy
from symx.prove import Prover
from symx.runner import Acc
from harness.common import bound, z, fval
from harness.geom import DirStub
from harness.fgstub import make_fullgrid, BRot, exercise_full_decoys, decoy_value_factory, float_decoy_values

ARRAY_GETTERS = dict(FULL_GETTERS=("get_full_grid_as_array",), POS_GETTERS=("get_position_grid_as_array", "get_radii"))

PROPERTY = "C09"
FUNCTIONS = ["molgri.space.fullgrid.from_full_array_to_o_b_t", "molgri.space.fullgrid.FullGrid.get_full_grid_as_array", "FullGrid.get_position_index", "FullGrid.get_quaternion_index", "FullGrid.__len__",
             "FullGrid.get_b_N/get_o_N/get_t_N", "PositionGrid.get_position_grid_as_array", "PositionGrid.__len__", "fullgrid._t_and_o_2_positions"]
STUBS = ["direction / rotation grids -> objects returning symbolic coordinate arrays (N x 3, N x 4)", "np constructors -> object arrays",
         "np.unique(rows, return_index=True, axis=0) -> first occurrence of every distinct row, row equality decided by the solver; np.round(x, 8) -> rint(1e8 x)/1e8 "
         "with rint uninterpreted, |rint(y)-y| <= 1/2, odd"]
ASSUMPTIONS = ["radii are already in Angstrom here (the x10 conversion is proved under C16)", "float modelled by the reals"]
OUTSIDE = ["decomposition of the direction and radial parts on SYMBOLIC values (sqrt + division inside np.unique's row comparisons: feasibility checks come back "
           "unknown); they run on concrete generic numbers inside the decompose shapes, only the quaternion part is symbolic there", "float rounding effects of np.round(x, 8)",
           "sizes beyond the bound"]


def bounds(tier):
    b = [1, 2, 3] if tier == "quick" else [1, 2, 3, 4]
    return {"n_b": b, "n_o": b, "n_t": b, "cells": "<= 27 quick, <= 36 thorough", "row_index": "symbolic integer", "index_arrays": "None, every single index, reversed, seeded subset with repeats",
            "decompose": "n_b*n_o*n_t <= 12, quaternions symbolic and pairwise separated by > 1e-7, directions / radii concrete generic"}


def shapes(tier, seed):
    b = [1, 2, 3] if tier == "quick" else [1, 2, 3, 4]
    out = [{"kind": "rows", "n_b": x, "n_o": y, "n_t": t} for x in b for y in b for t in b if x * y * t <= 36]
    out += [{"kind": "decompose", "n_b": x, "n_o": y, "n_t": t, "gseed": seed} for x in b for y in b for t in b if x * y * t <= (12 if tier == "quick" else 18)]
    # the single-direction grid of the package is an INTEGER array ([[0, 0, 1]], ZeroRotations3D): rows built from it must still carry the real radii
    out += [{"kind": "rows", "n_b": x, "n_o": 1, "n_t": t, "int_dirs": True} for x in (1, 2) for t in (1, 2, 3)]
    out.sort(key=lambda s: s["n_b"] * s["n_o"] * s["n_t"])
    return out


def ite_chain(rows, n):
    """value of rows[n] for a symbolic integer n"""
    acc = rows[-1]
    for k in range(len(rows) - 2, -1, -1):
        acc = z3.If(n == k, rows[k], acc)
    return acc


def _concrete_o_r(shape):
    rng = np.random.default_rng(100 + shape.get("gseed", 0) + 7 * shape["n_o"] + shape["n_t"])
    O = rng.normal(size=(shape["n_o"], 3))
    O /= np.linalg.norm(O, axis=1)[:, None]
    r = np.cumsum(rng.uniform(0.5, 1.5, size=shape["n_t"]))
    return O, r


def run_decompose(shape):
    """from_full_array_to_o_b_t on the array of the real get_full_grid_as_array: directions and radii concrete generic numbers, the
    QUATERNIONS symbolic (any reals, pairwise separated by more than the 1e-8 rounding grid).  The order-preserving de-duplication
    (round to 8 decimals, np.unique(return_index) on rows, np.sort of the indices) is decided by the solver."""
    import molgri.space.fullgrid as F
    import molgri.space.translations as TR
    import molgri.space.voronoi as Vm
    n_b, n_o, n_t = shape["n_b"], shape["n_o"], shape["n_t"]
    O, r = _concrete_o_r(shape)
    Q = [[z3.Real(f"q{i}_{c}") for c in range(4)] for i in range(n_b)]
    eng = Engine()
    prover = Prover(timeout_ms=20000, budget_s=300)
    acc = Acc(shape)
    sep = z3.RealVal("1/10000000")
    for i in range(n_b):
        for j in range(i + 1, n_b):
            eng.assume_global(z3.Or([z3.Or(Q[i][c] - Q[j][c] > sep, Q[j][c] - Q[i][c] > sep) for c in range(4)]))
    proxy = NPProxy()

    def body():
        with bound(F, print=noprint, np=proxy), bound(TR, np=proxy, print=noprint):
            o = DirStub(n_o, [], [1.0] * n_o, {}, {}, sp, lambda l: sarr(l), coords=O.copy())
            fg = make_fullgrid(F, TR, Vm, 1, o, r.copy(), 2)
            fg.b_rotations = BRot(n_b, sarr([[SR(x) for x in row] for row in Q]), None)
            arr = fg.get_full_grid_as_array()
            before = arr.copy()
            first = F.from_full_array_to_o_b_t(arr)
            untouched = arr.shape == before.shape and all((a is b) or (not isinstance(a, SR) and not isinstance(b, SR) and a == b) for a, b in zip(arr.reshape(-1), before.reshape(-1)))
            second = F.from_full_array_to_o_b_t(arr)        # decomposing the same array again gives the same grids
            return first + (untouched, second)

    for path in eng.explore(body):
        acc.begin(prover, path)
        if path.kind == "exc":
            acc.structural("no_exception", False, detail=repr(path.value) + (path.tb or "")[-600:], cex={"kind": "exception", "exc": type(path.value).__name__, "model": _model(path)})
            continue
        if acc.reachable is not True:
            acc.reach(prover.satisfiable(path.premises))
        uo, ub, ut, untouched, second = path.value
        m = _model(path)
        acc.structural("input_array_untouched_by_decomposition", bool(untouched), detail="from_full_array_to_o_b_t modified the array it was given", cex={"model": m})
        so, sb_, st_ = second
        same2 = np.shape(so) == np.shape(uo) and np.shape(st_) == np.shape(ut) and np.shape(sb_) == np.shape(ub) and \
            np.allclose(np.asarray(so, dtype=float), np.asarray(uo, dtype=float), atol=1e-9) and np.allclose(np.asarray(st_, dtype=float), np.asarray(ut, dtype=float), atol=2e-8)
        acc.structural("second_decomposition_of_same_array_agrees", bool(same2), detail=(str(np.shape(so)), str(np.asarray(st_, dtype=float).tolist())[:80]), cex={"model": m})
        ok_o = tuple(np.shape(uo)) == (n_o, 3) and np.allclose(np.asarray(uo, dtype=float), O, atol=1e-9)
        acc.structural("directions_recovered_in_order", ok_o, detail=str(np.shape(uo)), cex={"model": m})
        ok_t = tuple(np.shape(ut)) == (n_t,) and np.allclose(np.asarray(ut, dtype=float), r, atol=2e-8)
        acc.structural("radii_recovered_in_order", ok_t, detail=str(np.shape(ut)), cex={"model": m})
        ok_b = tuple(np.shape(ub)) == (n_b, 4)
        acc.structural("rotation_grid_shape", ok_b, detail=str(np.shape(ub)), cex={"model": m})
        if ok_b:
            acc.add(prover.prove_all(path.premises, [(f"rotation_recovered_in_order[{i},{c}]", z(ub[i, c]) == Q[i][c]) for i in range(n_b) for c in range(4)]), make_cex=lambda r_: {})
    return acc.result(eng.stats, prover.stats)


def _model(path):
    s_ = z3.Solver()
    s_.set("timeout", 3000)
    s_.add(*path.premises)
    if s_.check() == z3.sat:
        from symx.prove import model_to_dict
        return {k: (str(v) if not isinstance(v, bool) else v) for k, v in model_to_dict(s_.model()).items()}
    return {}


def run_shape(shape):
    if shape.get("kind") == "decompose":
        return run_decompose(shape)
    import molgri.space.fullgrid as F
    import molgri.space.translations as TR
    import molgri.space.voronoi as Vm
    n_b, n_o, n_t = shape["n_b"], shape["n_o"], shape["n_t"]
    R = z3.Real
    O = [[R(f"o{i}_{c}") for c in range(3)] for i in range(n_o)]
    int_dirs = bool(shape.get("int_dirs"))
    if int_dirs:
        O = [[z3.RealVal(0), z3.RealVal(0), z3.RealVal(1)]]
    Q = [[R(f"q{i}_{c}") for c in range(4)] for i in range(n_b)]
    r = [R(f"r{k}") for k in range(n_t)]
    eng = Engine()
    prover = Prover(timeout_ms=20000, budget_s=300)
    acc = Acc(shape)
    proxy = NPProxy()
    N = n_b * n_o * n_t
    rng = np.random.default_rng(N)
    idx_sets = [None] + [[k] for k in range(N)] + [list(range(N))[::-1], [int(x) for x in rng.integers(0, N, size=N + 2)]]
    dv = decoy_value_factory(eng)

    def body():
        with bound(F, print=noprint, np=proxy), bound(TR, np=proxy, print=noprint):
            o = DirStub(n_o, [], [1.0] * n_o, {}, {}, sp, lambda l: sarr(l), coords=(np.array([[0, 0, 1]]) if int_dirs else sarr([[SR(x) for x in row] for row in O])))
            radii = sarr([SR(x) for x in r])
            # other grids of the same process under the same (lossy) names: built and asked for their arrays before the grid under test
            # exists and again between its construction and its first getter
            exercise_full_decoys(F, TR, Vm, 1, o, radii, 2, sarr, dv, tag="A", **ARRAY_GETTERS)
            fg = make_fullgrid(F, TR, Vm, 1, o, radii, 2)
            exercise_full_decoys(F, TR, Vm, 1, o, radii, 2, sarr, dv, tag="B", **ARRAY_GETTERS)
            fg.b_rotations = BRot(n_b, sarr([[SR(x) for x in row] for row in Q]), None)
            scratch = fg.get_full_grid_as_array()
            scratch[...] = 0                      # a caller is free to edit the array it got (unit conversion, shuffling ...)
            arr = fg.get_full_grid_as_array()     # ... and a later call must still describe the grid
            pos = fg.position_grid.get_position_grid_as_array()
            helpers = []
            for ix in idx_sets:
                if ix is None:
                    helpers.append((None, fg.get_position_index(None), fg.get_quaternion_index(None), True))
                    continue
                arr_ix = np.array(ix)            # ONE array handed to both helpers, in both orders; it must come back untouched
                hp = np.array(fg.get_position_index(arr_ix))
                hq = np.array(fg.get_quaternion_index(arr_ix))
                hq2 = np.array(fg.get_quaternion_index(arr_ix))
                hp2 = np.array(fg.get_position_index(arr_ix))
                same = list(arr_ix) == list(ix) and list(hp) == list(hp2) and list(hq) == list(hq2)
                helpers.append((ix, hp, hq, same))
            return arr, pos, helpers, len(fg), len(fg.position_grid), (fg.get_b_N(), fg.get_o_N(), fg.get_t_N())

    n = z3.Int("n")
    for path in eng.explore(body):
        acc.begin(prover, path)
        if path.kind == "exc":
            acc.structural("no_exception", False, detail=repr(path.value) + (path.tb or "")[-600:], cex={"kind": "exception", "exc": type(path.value).__name__})
            continue
        if acc.reachable is not True:
            acc.reach(prover.satisfiable(path.premises))
        arr, pos, helpers, ln, lnp, sizes = path.value
        ok = tuple(np.shape(arr)) == (N, 7) and tuple(np.shape(pos)) == (n_o * n_t, 3) and ln == N and lnp == n_o * n_t and sizes == (n_b, n_o, n_t)
        acc.structural("shapes_and_lengths", ok, detail=(np.shape(arr), np.shape(pos), ln, lnp, sizes))
        if not ok:
            continue
        rng_n = [n >= 0, n < N]
        p = n / n_b          # z3 integer division
        t_i, o_i, b_i = p / n_o, p % n_o, n % n_b
        claims = []
        for c in range(3):
            got = ite_chain([z(arr[k, c]) for k in range(N)], n)
            exp = ite_chain(r, t_i) * ite_chain([O[i][c] for i in range(n_o)], o_i)
            claims.append((f"row_n_position[{c}]", got == exp))
        for c in range(4):
            got = ite_chain([z(arr[k, 3 + c]) for k in range(N)], n)
            claims.append((f"row_n_quaternion[{c}]", got == ite_chain([Q[i][c] for i in range(n_b)], b_i)))
        m = z3.Int("m")
        for c in range(3):
            gotp = ite_chain([z(pos[k, c]) for k in range(n_o * n_t)], m)
            claims.append((f"position_row_m[{c}]", gotp == ite_chain(r, m / n_o) * ite_chain([O[i][c] for i in range(n_o)], m % n_o)))
        table_p, table_q = helpers[0][1], helpers[0][2]
        shp = (np.shape(table_p), np.shape(table_q))      # a result that is no 1-D table at all (0-d, None, ...) is the code's answer, not a crash of the harness
        tables_ok = shp == ((N,), (N,))
        acc.structural("helper_tables_length", tables_ok, detail=shp, cex={"default_indices": True})
        if tables_ok:
            claims.append(("position_index_of_n", ite_chain([z3.IntVal(int(x)) for x in table_p], n) == n / n_b))
            claims.append(("quaternion_index_of_n", ite_chain([z3.IntVal(int(x)) for x in table_q], n) == n % n_b))
        acc.add(prover.prove_all(path.premises + rng_n + [m >= 0, m < n_o * n_t], claims), make_cex=lambda r_: {})
        for ix, hp, hq, same in helpers[1:]:
            okh = same and list(map(int, hp)) == [k // n_b for k in ix] and list(map(int, hq)) == [k % n_b for k in ix]
            acc.structural(f"helpers_on_index_array{ix if len(ix) < 4 else '[...]'}", okh, detail=(ix, list(map(int, hp)), list(map(int, hq))), cex={"indices": ix})
    return acc.result(eng.stats, prover.stats)


def replay_decompose(cex):
    import molgri.space.fullgrid as F
    import molgri.space.translations as TR
    import molgri.space.voronoi as Vm
    import scipy.sparse as rsp
    s = cex["shape"]
    n_b, n_o, n_t = s["n_b"], s["n_o"], s["n_t"]
    O, r = _concrete_o_r(s)
    model = cex.get("model", {}) or {}
    rng = np.random.default_rng(9)
    Q = np.array([[fval(model, f"q{i}_{c}", float(rng.normal())) for c in range(4)] for i in range(n_b)])
    o = DirStub(n_o, [], [1.0] * n_o, {}, {}, rsp, lambda l: np.array(l), coords=O.copy())
    fg = make_fullgrid(F, TR, Vm, 1, o, r.copy(), 2)
    fg.b_rotations = BRot(n_b, Q, None)
    try:
        arr = fg.get_full_grid_as_array()
        before = arr.copy()
        uo, ub, ut = F.from_full_array_to_o_b_t(arr)
        so, sb_, st_ = F.from_full_array_to_o_b_t(arr)
    except Exception as e:  # noqa: BLE001
        return {"reproduced": True, "detail": f"raised {e!r}"}
    bad = []
    if not np.array_equal(arr, before):
        bad.append("decomposition modified the array it was given")
    if np.shape(st_) != np.shape(ut) or not np.allclose(st_, ut) or np.shape(so) != np.shape(uo) or not np.allclose(so, uo):
        bad.append(f"second decomposition of the same array differs: radii {np.asarray(st_).tolist()} vs {np.asarray(ut).tolist()}")
    if np.shape(uo) != (n_o, 3) or not np.allclose(uo, O, atol=1e-9):
        bad.append(f"directions {np.shape(uo)}")
    if np.shape(ut) != (n_t,) or not np.allclose(ut, r, atol=2e-8):
        bad.append(f"radii {np.shape(ut)}")
    if np.shape(ub) != (n_b, 4) or not np.allclose(ub, Q, atol=1e-12):
        bad.append(f"rotation grid {np.shape(ub)} for quaternions {Q.tolist()}")
    return {"reproduced": bool(bad), "detail": str(bad)}


def replay(cex):
    if cex["shape"].get("kind") == "decompose":
        return replay_decompose(cex)
    import molgri.space.fullgrid as F
    import molgri.space.translations as TR
    import molgri.space.voronoi as Vm
    import scipy.sparse as rsp
    s = cex["shape"]
    n_b, n_o, n_t = s["n_b"], s["n_o"], s["n_t"]
    model = cex.get("model", {}) or {}
    rng = np.random.default_rng(5)
    O = np.array([[fval(model, f"o{i}_{c}", float(rng.normal())) for c in range(3)] for i in range(n_o)])
    if s.get("int_dirs"):
        O = np.array([[0, 0, 1]])
    Q = np.array([[fval(model, f"q{i}_{c}", float(rng.normal())) for c in range(4)] for i in range(n_b)])
    r = np.array([fval(model, f"r{k}", 1.0 + 0.7 * k) for k in range(n_t)])
    o = DirStub(n_o, [], [1.0] * n_o, {}, {}, rsp, lambda l: np.array(l), coords=O)
    dvf = float_decoy_values()
    mk = lambda l: np.array(l, dtype=float)
    import contextlib, io
    with contextlib.redirect_stdout(io.StringIO()):
        exercise_full_decoys(F, TR, Vm, 1, o, r, 2, mk, dvf, tag="A", **ARRAY_GETTERS)
        fg = make_fullgrid(F, TR, Vm, 1, o, r, 2)
        exercise_full_decoys(F, TR, Vm, 1, o, r, 2, mk, dvf, tag="B", **ARRAY_GETTERS)
    fg.b_rotations = BRot(n_b, Q, None)
    N = n_b * n_o * n_t
    bad = []
    try:
        scratch = fg.get_full_grid_as_array()
        scratch[...] = 0
        arr = fg.get_full_grid_as_array()
        tp, tq = fg.get_position_index(), fg.get_quaternion_index()
    except Exception as e:  # noqa: BLE001
        return {"reproduced": True, "detail": f"raised {e!r}"}
    if arr.shape != (N, 7) or len(fg) != N:
        return {"reproduced": True, "detail": f"shape {arr.shape} len {len(fg)}"}
    if np.shape(tp) != (N,) or np.shape(tq) != (N,):
        return {"reproduced": True, "detail": f"index helpers without an argument return objects of shape {np.shape(tp)} / {np.shape(tq)} for a grid of {N} points (n_b={n_b}, n_o={n_o}, n_t={n_t})"}
    for k in range(N):
        p, b = divmod(k, n_b)
        t, oi = divmod(p, n_o)
        if not np.allclose(arr[k, :3], r[t] * O[oi]) or not np.allclose(arr[k, 3:], Q[b]):
            bad.append(f"row {k}")
        if int(tp[k]) != p or int(tq[k]) != b:
            bad.append(f"helper {k}")
    ix = cex.get("indices")
    if ix:
        a = np.array(ix)
        hp = np.array(fg.get_position_index(a)); hq = np.array(fg.get_quaternion_index(a)); hq2 = np.array(fg.get_quaternion_index(a)); hp2 = np.array(fg.get_position_index(a))
        if list(map(int, hp)) != [k // n_b for k in ix] or list(map(int, hq)) != [k % n_b for k in ix] or list(hp2) != list(hp) or list(hq2) != list(hq) or list(a) != list(ix):
            bad.append(f"helpers on the same index array {ix}: positions {hp.tolist()} / {hp2.tolist()}, rotations {hq.tolist()} / {hq2.tolist()}, array afterwards {a.tolist()}")
    return {"reproduced": bool(bad), "detail": str(bad[:6])}


def finding_key(cex):
    return f"C09:{cex['shape'].get('kind', 'rows')}:{cex['obligation'].split('[')[0]}"


def selftest(seed):
    # z3's integer division / modulo agree with Python's for the non-negative operands used here
    s = z3.Solver()
    a, b = z3.Int("a"), z3.Int("b")
    n = 0
    for x, y in ((7, 2), (0, 3), (11, 4), (5, 5)):
        s.push()
        s.add(a == x, b == y, z3.Or(a / b != x // y, a % b != x % y))
        assert s.check() == z3.unsat
        s.pop()
        n += 1
    return n
