"""helpers shared by the per-property harnesses"""
import contextlib
import fractions
import itertools
import math

import numpy as np
import z3

from symx.core import SR, SB, Engine, noprint, rv
from symx.arr import SArr, sarr

_MISSING = object()


@contextlib.contextmanager
def bound(module, **names):
    """rebind module globals of a real molgri module for the duration of a symbolic run"""
    old = {k: module.__dict__.get(k, _MISSING) for k in names}
    module.__dict__.update(names)
    try:
        yield
    finally:
        for k, v in old.items():
            if v is _MISSING:
                module.__dict__.pop(k, None)
            else:
                module.__dict__[k] = v


class RealCodeRaised(Exception):
    """the REAL molgri code raised during a replay (as opposed to the harness's own oracle arithmetic failing on an extreme model)"""


@contextlib.contextmanager
def real_code():
    try:
        yield
    except Exception as e:  # noqa: BLE001
        raise RealCodeRaised(f"{type(e).__name__}: {e}") from e


def z(x):
    """scalar -> z3 real term"""
    if isinstance(x, (bool, np.bool_)):
        return z3.RealVal(int(x))
    return rv(x)


def fval(model, name, default=None):
    """model value (stored as str(Fraction) / bool) -> float"""
    v = model.get(name, default)
    if v is None:
        return None
    if isinstance(v, bool):
        return v
    return float(fractions.Fraction(v))


def sym_patterns(n):
    """all symmetric off-diagonal patterns on n cells as tuples of pairs (i<j)"""
    pairs = [(i, j) for i in range(n) for j in range(i + 1, n)]
    for k in range(len(pairs) + 1):
        for sub in itertools.combinations(pairs, k):
            yield tuple(sub)


def exp_facts(terms):
    """sound facts about the real exponential for the given argument terms (used to keep counterexample models honest)"""
    from symx.core import uf_exp
    e = uf_exp()
    out = []
    for t in terms:
        out.append(e(t) > 0)
        out.append(e(t) >= 1 + t)
        out.append((t == 0) == (e(t) == 1))
    for a, b in itertools.combinations(terms, 2):
        out.append((a < b) == (e(a) < e(b)))
        out.append((a == b) == (e(a) == e(b)))
    return out


def isclose(a, b, rtol=1e-9, atol=1e-12):
    return abs(a - b) <= atol + rtol * max(abs(a), abs(b))


def exp_saturation(terms, extra_args=()):
    """facts about the real exponential, instantiated for every pair of arguments at which `exp` is applied in `terms`
    (plus `extra_args`): positivity, exp(a) = exp(b) * exp(a - b), monotonicity.  Used as a second attempt when a claim that
    holds for the real exponential is refuted by an arbitrary interpretation of the uninterpreted `exp` (e.g. the code
    computes exp(x)/exp(y) where the oracle writes exp(x - y))."""
    from symx.core import uf_exp
    e = uf_exp()
    args = {}

    def walk(t, seen):
        if t.get_id() in seen:
            return
        seen.add(t.get_id())
        if z3.is_app(t):
            if t.decl().name() == "exp" and t.num_args() == 1:
                a = z3.simplify(t.arg(0))
                args[a.get_id()] = a
            for ch in t.children():
                walk(ch, seen)
    seen = set()
    for t in terms:
        walk(t, seen)
    for a in extra_args:
        a = z3.simplify(a)
        args[a.get_id()] = a
    A = list(args.values())
    out = [e(a) > 0 for a in A]
    for a in A:
        for b in A:
            if a.get_id() == b.get_id():
                continue
            d = z3.simplify(a - b)
            out.append(e(a) == e(b) * e(d))
            out.append(e(d) > 0)
            out.append((d > 0) == (e(d) > 1))
            out.append((d == 0) == (e(d) == 1))
            out.append((a < b) == (e(a) < e(b)))
    return out


def bypass_guard(exc):
    """Harnesses that build an object with object.__new__ (because its real __init__ runs Qhull / MDAnalysis) skip whatever that
    __init__ initialises.  An AttributeError for a missing attribute on such a path may therefore be an artefact of the construction
    and not a defect of the code: it is reported as a harness error (exit 2), never as a violation."""
    from symx.core import Unsupported
    if isinstance(exc, AttributeError) and "has no attribute" in str(exc):
        raise Unsupported(f"AttributeError on an object constructed without its __init__ (cannot tell a defect from a construction artefact): {exc}")
