"""helpers shared by the per-property harnesses"""
import contextlib
import fractions
import itertools
import math

import numpy as np
import z3

from symx.core import SR, SB, Engine, noprint, rv
from symx.arr import SArr, sarr

_MISSING = object()


@contextlib.contextmanager
def bound(module, **names):
    """rebind module globals of a real molgri module for the duration of a symbolic run"""
    old = {k: module.__dict__.get(k, _MISSING) for k in names}
    module.__dict__.update(names)
    try:
        yield
    finally:
        for k, v in old.items():
            if v is _MISSING:
                module.__dict__.pop(k, None)
            else:
                module.__dict__[k] = v


def z(x):
    """scalar -> z3 real term"""
    if isinstance(x, (bool, np.bool_)):
        return z3.RealVal(int(x))
    return rv(x)


def fval(model, name, default=None):
    """model value (stored as str(Fraction) / bool) -> float"""
    v = model.get(name, default)
    if v is None:
        return None
    if isinstance(v, bool):
        return v
    return float(fractions.Fraction(v))


def sym_patterns(n):
    """all symmetric off-diagonal patterns on n cells as tuples of pairs (i<j)"""
    pairs = [(i, j) for i in range(n) for j in range(i + 1, n)]
    for k in range(len(pairs) + 1):
        for sub in itertools.combinations(pairs, k):
            yield tuple(sub)


def exp_facts(terms):
    """sound facts about the real exponential for the given argument terms (used to keep counterexample models honest)"""
    from symx.core import uf_exp
    e = uf_exp()
    out = []
    for t in terms:
        out.append(e(t) > 0)
        out.append(e(t) >= 1 + t)
        out.append((t == 0) == (e(t) == 1))
    for a, b in itertools.combinations(terms, 2):
        out.append((a < b) == (e(a) < e(b)))
        out.append((a == b) == (e(a) == e(b)))
    return out


def isclose(a, b, rtol=1e-9, atol=1e-12):
    return abs(a - b) <= atol + rtol * max(abs(a), abs(b))
