"""C13 -- merging and deleting cells is exact lumping with correct index bookkeeping.

Inductive formulation (operation histories are NOT explored): the pre-state is an arbitrary valid state
(P, M0, deleted?) -- P any canonical partition of any subset of {0..n-1}, M0 a symbolic n x n real matrix, the current
matrix *defined* by the invariant (off-diagonal block sums of M0; diagonal = block sum, or minus the off-diagonal row
sum once a deletion has happened).  One real merge / delete call with arbitrary arguments must re-establish the
invariant for the specified P' and return P' as index list.  One step covers histories of any length.
The combined `SQRA.cut_and_merge` step runs on symbolic energies and limits.
"""
import itertools

import numpy as np
import z3
from scipy.constants import k as kB, N_A

from symx.core import Engine, SR, noprint
from symx.arr import sarr, SArr
from symx import sparse as sp
from symx.npproxy import NPProxy
from symx.prove import Prover
from symx.runner import Acc
from symx.selftest import sparse_selftest
from harness.common import bound, z, fval, isclose

PROPERTY = "C13"
FUNCTIONS = ["molgri.molecules.rate_merger.merge_sublists (real networkx)", "rate_merger.find_el_within_nested_list",
             "rate_merger.merge_matrix_cells", "rate_merger.delete_rate_cells", "rate_merger.sqra_normalize",
             "rate_merger.determine_rate_cells_to_join", "rate_merger.determine_rate_cells_with_too_high_energy",
             "molgri.molecules.transitions.SQRA.cut_and_merge"]
STUBS = ["scipy.sparse csr_array/coo_array/diags -> dense-backed value models (pattern attributes raise)", "np.diag/np.array -> object arrays",
         "print -> no-op (arguments still evaluated)"]
ASSUMPTIONS = ["float modelled by the reals", "the pre-state satisfies the representation invariant (every such state is reachable: delete the "
               "absent cells, then merge the groups)", "cell numbers in join / removal lists are in range 0..n-1 (absent ones allowed)"]
OUTSIDE = ["n beyond the bound", "out-of-range cell numbers", "join sublists longer than the bound"]


def bounds(tier):
    if tier == "quick":
        return {"n": [1, 2, 3, 4], "large_states": "n=9,10: singletons and one mixed partition, removing / merging away 4..n cells (prefix, suffix, seeded subsets)", "states": "all canonical partitions of all subsets of the n cells x deleted flag x {dense, csr}",
                "merge_args": "n<=3: all families of <=2 sublists of <=2 members (ordered, repeats allowed) + all single sublists of 3; "
                              "n=4: all single sublists of <=2 members and all pairs of 2-member sublists",
                "delete_args": "all ordered lists of <=2 cells", "cut_and_merge": "n=3 full + path pattern, 4 limit combinations, symbolic energies"}
    return {"n": [1, 2, 3, 4], "states": "as quick", "merge_args": "all families of <=2 sublists of <=3 members for n<=4 (ordered, repeats)",
            "delete_args": "all ordered lists of <=3 cells", "cut_and_merge": "n<=4, all connected patterns"}


# ------------------------------------------------------------------------------------------------ combinatorics
def partitions(s):
    s = list(s)
    if not s:
        yield []
        return
    first, rest = s[0], s[1:]
    for p in partitions(rest):
        yield [[first]] + p
        for i in range(len(p)):
            yield p[:i] + [[first] + p[i]] + p[i + 1:]


def canon(P):
    return sorted([sorted(int(x) for x in g) for g in P], key=lambda g: g[0])


def all_states(n):
    for k in range(n + 1):
        for sub in itertools.combinations(range(n), k):
            for P in partitions(sub):
                P = canon(P)
                for deleted in ((False, True) if k == n else (True,)):
                    yield P, deleted


def merge_args(n, tier):
    cells = range(n)
    subl = [()] + [j for r in (1, 2) for j in itertools.product(cells, repeat=r)]
    if tier == "thorough":
        subl += list(itertools.product(cells, repeat=3))
    out = [()]
    out += [(j,) for j in subl if j]
    if n <= 3 or tier == "thorough":
        pool = [j for j in subl if j] if n <= 3 else [j for j in subl if len(j) in (2, 3)]
        out += [(a, b) for a in pool for b in pool]
        if n <= 3 and tier == "quick":
            out += [(j,) for j in itertools.product(cells, repeat=3)]
    else:
        two = [j for j in subl if len(j) == 2]
        out += [(a, b) for a in two for b in two]
    # three sublists, every order: a sublist that bridges two groups formed by the earlier ones must unite them (closure is not a single pass)
    if n >= 3:
        triples = [((0, 1), (1, 2), (2, 3)), ((0, 1), (2, 3), (0, 3)), ((0, 2), (1, 3), (2, 1))] if n >= 4 else [((0, 1), (1, 2), (0, 2)), ((0, 1), (2, 2), (1, 2))]
        for tr in triples:
            out += [tuple(pm) for pm in itertools.permutations(tr)]
    return out


def delete_args(n, tier):
    cells = range(n)
    rs = (1, 2) if tier == "quick" else (1, 2, 3)
    return [()] + [d for r in rs for d in itertools.product(cells, repeat=r)]


def spec_merge(P, arg):
    """unite the groups containing the listed cells (per sublist, transitively); absent cells are ignored"""
    groups = [set(g) for g in P]
    for J in arg:
        hit = [g for g in groups if g & set(J)]
        if len(hit) > 1:
            u = set().union(*hit)
            groups = [g for g in groups if not (g & u)] + [u]
    return canon([list(g) for g in groups])


def _label_closure(arg):
    """transitive closure of the join sublists over cell labels (what the docstring of merge_matrix_cells promises)"""
    comps = []
    for J in arg:
        J = set(J)
        if not J:
            continue
        hit = [c for c in comps if c & J]
        for c in hit:
            comps.remove(c)
            J |= c
        comps.append(J)
    return [tuple(sorted(c)) for c in comps]


def acceptable_merges(P, arg):
    """The join lists are first closed transitively over cell LABELS -- the documented contract of merge_sublists /
    merge_matrix_cells ("if [a, c] and [c, b] -> [a, b, c]") and what 'the same for any order or redundancy of the join lists'
    demands: [[0,2],[2,4]] and [[0,2,4]] are two spellings of one join -- and only then are cells that are no longer present
    ignored.  (Reading 'ignored' before the closure would make the result depend on the spelling when the shared cell is gone.)"""
    return [spec_merge(P, _label_closure(arg))]


def spec_delete(P, arg):
    return canon([g for g in P if not (set(g) & set(arg))])


def lump(M0, P, deleted, zero, add):
    """the matrix the invariant prescribes for state (P, deleted); generic over z3 terms / floats"""
    k = len(P)
    M = [[None] * k for _ in range(k)]
    for a, A in enumerate(P):
        for b, B in enumerate(P):
            M[a][b] = add([M0[i][j] for i in A for j in B])
    if deleted:
        for a in range(k):
            M[a][a] = -add([M[a][b] for b in range(k) if b != a] + [zero])
    return M


EXACT_PATTERNS = ("chain_no_diagonal", "chain_with_diagonal", "star0_no_diagonal", "only_last_pair", "complete_with_diagonal")


def exact_pattern(n, name):
    """stored positions (i, j) of the original n x n matrix"""
    off = {"chain": [(i, i + 1) for i in range(n - 1)], "star0": [(0, j) for j in range(1, n)], "only": [(n - 2, n - 1)] if n >= 2 else [],
           "complete": [(i, j) for i in range(n) for j in range(i + 1, n)]}[name.split("_")[0]]
    pos = set(off) | {(j, i) for i, j in off}
    if name.endswith("with_diagonal"):
        pos |= {(i, i) for i in range(n)}
    return pos


def shapes(tier, seed):
    out = []
    for n in (1, 2, 3, 4):
        for P, deleted in all_states(n):
            for sparse in (False, True):
                out.append({"kind": "step", "n": n, "P": P, "deleted": deleted, "sparse": sparse})
    # larger states with explicit operations: removing / merging away most of the rows (row selection must stay in index order)
    rng = np.random.default_rng(seed)
    for n in (9, 10):
        for P, deleted in (([[i] for i in range(n)], False), (canon([[0, 1], [2], [3, 4, 5]] + [[i] for i in range(6, n)]), True)):
            present = [c for g in P for c in g]
            ops = []
            for k in range(4, len(present) + 1):
                ops.append(["delete", present[:k]])
                ops.append(["delete", present[-k:]])
                ops.append(["delete", [int(x) for x in rng.choice(present, size=k, replace=False)]])
                ops.append(["merge", [present[:k]]])
                ops.append(["merge", [[int(x) for x in rng.choice(present, size=k, replace=False)]]])
                ops.append(["merge", [present[: k // 2], present[k // 2: k]]])
            for sparse in (False, True):
                out.append({"kind": "step", "n": n, "P": P, "deleted": deleted, "sparse": sparse, "ops": ops})
    # sparse inputs with a CONCRETE sparsity pattern on the exact-order csr model (.data/.indices/.indptr as scipy lays them out):
    # code that reads the CSR buffers is executed on rows without any stored entry, without a stored diagonal, ...
    for n in (2, 3, 4):
        for P, deleted in all_states(n):
            if n == 4 and not (len(P) in (3, 4) and sum(len(g) for g in P) == 4):
                continue
            for pname in EXACT_PATTERNS:
                out.append({"kind": "step", "n": n, "P": P, "deleted": deleted, "sparse": True, "exact": pname})
    pats = {3: [[(0, 1), (1, 2), (0, 2)], [(0, 1), (1, 2)]]}
    if tier == "thorough":
        pats[4] = [[(0, 1), (1, 2), (2, 3)], [(0, 1), (0, 2), (0, 3)], [(0, 1), (1, 2), (2, 3), (0, 3)], [(0, 1), (0, 2), (0, 3), (1, 2), (1, 3), (2, 3)]]
        pats[2] = [[(0, 1)]]
    for n, pl in pats.items():
        for pat in pl:
            for lower in (False, True):
                for upper in (False, True):
                    out.append({"kind": "cut", "n": n, "pattern": [list(p) for p in pat], "lower": lower, "upper": upper})
    out.sort(key=lambda s: (s["n"], s["kind"] == "cut", len(s.get("P", []))))
    for s in out:
        s["tier"] = tier
    return out


# ------------------------------------------------------------------------------------------------ symbolic runs
def _m0(n):
    return [[z3.Real(f"m{i}_{j}") for j in range(n)] for i in range(n)]


def _zsum(l):
    return z3.Sum(l) if l else z3.RealVal(0)


def run_shape(shape):
    if shape["kind"] == "cut":
        return run_cut(shape)
    import molgri.molecules.rate_merger as RM
    n, P, deleted, sparse = shape["n"], shape["P"], shape["deleted"], shape["sparse"]
    tier = shape.get("tier", "quick")
    prover = Prover(timeout_ms=10000, budget_s=600)
    acc = Acc(shape)
    M0 = _m0(n)
    exact = shape.get("exact")
    if exact:
        pos0 = exact_pattern(n, exact)
        M0 = [[M0[i][j] if (i, j) in pos0 else z3.RealVal(0) for j in range(n)] for i in range(n)]      # structurally absent = 0
        stored = {(a, b) for a, A_ in enumerate(P) for b, B_ in enumerate(P) if any((i, j) in pos0 for i in A_ for j in B_) or (deleted and a == b)}
    cur = lump(M0, P, deleted, z3.RealVal(0), _zsum)
    proxy = NPProxy()
    eng_stats = {}
    nones = (False, True) if (len(P) == n and all(len(g) == 1 for g in P)) else (False,)
    if "ops" in shape:
        ops = [(o_, tuple(tuple(x) for x in a) if o_ == "merge" else tuple(a), un) for o_, a in shape["ops"] for un in nones]
    else:
        margs = merge_args(n, tier)
        if exact:       # the exact-pattern variant is about the buffer layout: every deletion, and the merges that name at most three cells
            margs = [a for a in margs if sum(len(j) for j in a) <= 3 and len(a) <= 2]
        ops = [("merge", a, use_none) for a in margs for use_none in nones]
        ops += [("delete", a, use_none) for a in delete_args(n, tier) for use_none in nones]
    nviol = 0
    layout_seen = False
    for op, arg, use_none in ops:
        if nviol >= 6 or (layout_seen and not exact):
            break
        eng = Engine()
        if exact:
            # rate-matrix-like signs for the exact-pattern variant (stored off-diagonal entries > 0, stored diagonal entries < 0): the csr
            # model drops numerically zero results like scipy does, and with free signs every stored sum would fork the path
            for i in range(n):
                for j in range(n):
                    if (i, j) in pos0:
                        eng.declare_sign(M0[i][j], "+" if i != j else "-")
                        eng.assume_global(M0[i][j] > 0 if i != j else M0[i][j] < 0)

        def body():
            k = len(P)
            A = sarr([[SR(x) for x in row] for row in cur]) if k else np.zeros((0, 0), dtype=object).view(SArr)
            if sparse and exact:
                keys = sorted(stored)
                A = sp.csr_array((sarr([SR(cur[a][b]) for a, b in keys]) if keys else np.zeros(0, dtype=object).view(SArr),
                                  ([a for a, b in keys], [b for a, b in keys])), shape=(k, k))
            elif sparse:
                A = sp.DCsr(A)
            il = None if use_none else [list(g) for g in P]
            models = dict(csr_array=sp.csr_array, coo_array=sp.coo_array, csc_array=sp.csc_array, diags=sp.diags) if exact else dict(csr_array=sp.DCsr, coo_array=sp.DCoo, csc_array=sp.DCsc, diags=sp.ddiags)
            with bound(RM, print=noprint, np=proxy, **models):
                try:
                    # another matrix of the same process goes through a merge and a deletion first
                    dec = sarr([[SR(z3.RealVal(v)) for v in row] for row in ((-3, 1, 2), (1, -5, 4), (2, 4, -6))])
                    if sparse:
                        dec = models["csr_array"](dec)
                    d1, dil = RM.merge_matrix_cells(dec, [[0, 2]], index_list=None)
                    RM.delete_rate_cells(d1, [1], index_list=dil)
                    if op == "merge":
                        return RM.merge_matrix_cells(A, [list(j) for j in arg], index_list=il)
                    return RM.delete_rate_cells(A, list(arg), index_list=il)
                except sp.LayoutAccess as e:
                    return "LAYOUT", str(e)

        accept = acceptable_merges(P, arg) if op == "merge" else [spec_delete(P, arg)]
        del2 = deleted if op == "merge" else True
        tag = f"{op}{list(map(list, arg)) if op == 'merge' else list(arg)}{'/None' if use_none else ''}"
        for path in eng.explore(body):
            acc.begin(prover, path)
            cexinfo = {"op": op, "arg": [list(a) for a in arg] if op == "merge" else list(arg), "use_none": use_none}
            if path.kind == "exc":
                acc.structural(f"no_exception:{tag}", False, detail=repr(path.value) + (path.tb or "")[-400:],
                               cex=dict(cexinfo, kind="exception", exc=type(path.value).__name__))
                nviol += 1
                continue
            if acc.reachable is not True:
                acc.reach(prover.satisfiable(path.premises))
            if isinstance(path.value, tuple) and len(path.value) == 2 and isinstance(path.value[0], str) and path.value[0] == "LAYOUT":
                # the code reads the CSR buffers: undecidable on the pattern-abstract model, decided by the exact-pattern shapes
                acc.extra["layout_dependent_steps_left_to_exact_shapes"] = acc.extra.get("layout_dependent_steps_left_to_exact_shapes", 0) + 1
                layout_seen = True
                continue
            R, il2 = path.value
            try:
                il2c = [[int(x) for x in g] for g in il2]
            except Exception:  # noqa: BLE001
                il2c = repr(il2)
            ok_idx = il2c in accept
            acc.structural(f"index_list:{tag}", ok_idx, detail={"got": il2c, "expected": accept}, cex=cexinfo)
            P2 = il2c
            expect = lump(M0, P2, del2, z3.RealVal(0), _zsum) if ok_idx else None
            if not ok_idx:
                nviol += 1
                continue
            Rd = R.toarray() if hasattr(R, "toarray") else R
            kk = len(P2)
            ok_shape = tuple(np.shape(Rd)) == (kk, kk)
            acc.structural(f"shape:{tag}", ok_shape, detail=np.shape(Rd), cex=cexinfo)
            if not ok_shape:
                nviol += 1
                continue
            acc.structural(f"same_kind:{tag}", (isinstance(R, sp.DenseBacked) or getattr(R, "format", None) in ("csr", "csc", "coo")) == sparse, detail=type(R).__name__, cex=cexinfo)
            claims = [(f"entry[{a},{b}]:{tag}", z(Rd[a, b]) == expect[a][b]) for a in range(kk) for b in range(kk)]
            # consequences stated by the property: zero row sums and symmetry are preserved
            zero_rows = [_zsum(list(M0[i])) == 0 for i in range(n)]
            symm = [M0[i][j] == M0[j][i] for i in range(n) for j in range(i + 1, n)]
            cons = [(f"rowsum0[{a}]:{tag}", _zsum([z(Rd[a, b]) for b in range(kk)]) == 0) for a in range(kk)]
            consy = [(f"symmetric[{a},{b}]:{tag}", z(Rd[a, b]) == z(Rd[b, a])) for a in range(kk) for b in range(a + 1, kk)]
            res = prover.prove_all(path.premises, claims)
            acc.add(res, make_cex=lambda r, c=cexinfo: dict(c))
            if any(r.verdict == "cex" for r in res):
                nviol += 1
                continue
            if len(P) == n or del2:
                acc.add(prover.prove_all(path.premises + (zero_rows if not del2 else []), cons), make_cex=lambda r, c=cexinfo: dict(c, premise="zero_rows"))
            acc.add(prover.prove_all(path.premises + symm, consy), make_cex=lambda r, c=cexinfo: dict(c, premise="symmetric"))
        for k_, v in eng.stats.items():
            eng_stats[k_] = eng_stats.get(k_, 0) + v
    return acc.result(eng_stats, prover.stats)


RT1 = z3.RealVal(str(__import__("fractions").Fraction(kB * N_A)))


def run_cut(shape):
    """SQRA.cut_and_merge on symbolic energies, temperature and limits"""
    import molgri.molecules.rate_merger as RM
    import molgri.molecules.transitions as T
    n = shape["n"]
    pattern = [tuple(p) for p in shape["pattern"]]
    eng = Engine()
    prover = Prover(timeout_ms=10000, budget_s=600)
    acc = Acc(shape)
    M0 = _m0(n)
    E = [z3.Real(f"E{i}") for i in range(n)]
    Tt, lo, up = z3.Real("T"), z3.Real("lower"), z3.Real("upper")
    eng.assume_global(Tt > 0, lo > 0)
    eng.declare_sign(Tt, "+")
    proxy = NPProxy()
    keys = sorted(pattern + [(j, i) for i, j in pattern])

    def body():
        Q = sp.DCsr(sarr([[SR(x) for x in row] for row in M0]))
        H = sp.coo_array(([1.0] * len(keys), ([k[0] for k in keys], [k[1] for k in keys])), shape=(n, n))
        with bound(RM, csr_array=sp.DCsr, coo_array=sp.DCoo, diags=sp.ddiags, print=noprint, np=proxy), bound(T, print=noprint, np=proxy):
            s = T.SQRA(energies=sarr([SR(e) for e in E]), volumes=sarr([1.0] * n), distances=H, surfaces=H)
            try:
                return s.cut_and_merge(Q, SR(Tt), SR(lo) if shape["lower"] else None, SR(up) if shape["upper"] else None)
            except sp.LayoutAccess as e:
                return "LAYOUT", str(e)

    def decided(path, cond):
        """value of a condition the code must have branched on along this path (None if the path leaves it open)"""
        if prover.prove("implied", path.premises, cond).verdict == "proved":
            return True
        if prover.prove("refuted", path.premises, z3.Not(cond)).verdict == "proved":
            return False
        return None

    for path in eng.explore(body):
        acc.begin(prover, path)
        cexinfo = {"lower": shape["lower"], "upper": shape["upper"]}
        if path.kind == "exc":
            acc.structural("no_exception", False, detail=repr(path.value) + (path.tb or "")[-400:],
                           cex=dict(cexinfo, kind="exception", exc=type(path.value).__name__, model=_model_of(prover, path)))
            continue
        if acc.reachable is not True:
            acc.reach(prover.satisfiable(path.premises))
        if isinstance(path.value, tuple) and len(path.value) == 2 and isinstance(path.value[0], str) and path.value[0] == "LAYOUT":
            acc.extra["layout_dependent_steps_left_to_exact_shapes"] = acc.extra.get("layout_dependent_steps_left_to_exact_shapes", 0) + 1
            continue
        R, il = path.value
        # specification from the statement, evaluated under this path's decisions
        P2 = [[i] for i in range(n)]
        ok_dec = True
        if shape["lower"]:
            joins = []
            for (i, j) in pattern:
                d = E[i] - E[j]
                v = decided(path, z3.If(d >= 0, d, -d) * 1000 / (RT1 * Tt) < lo)
                if v is None:
                    ok_dec = False
                elif v:
                    joins.append((i, j))
            P2 = spec_merge(P2, joins)
        if shape["upper"]:
            rem = []
            for i in range(n):
                v = decided(path, E[i] * 1000 / (RT1 * Tt) > up)
                if v is None:
                    ok_dec = False
                elif v:
                    rem.append(i)
            P2 = spec_delete(P2, rem)
        if not ok_dec:
            acc.inconclusive.append({"obligation": "path_decisions", "solver": "z3", "note": "a join/removal condition is open on this path"})
            acc.obligations += 1
            continue
        m = _model_of(prover, path)
        Rd = R.toarray() if hasattr(R, "toarray") else R
        if not shape["lower"] and not shape["upper"]:
            acc.structural("no_limits_returns_unchanged_None", il is None and np.shape(Rd) == (n, n), detail=repr(il), cex=dict(cexinfo, model=m))
            expect = lump(M0, [[i] for i in range(n)], False, z3.RealVal(0), _zsum)
        else:
            unchanged = (P2 == [[i] for i in range(n)])
            if il is None:
                # allowed only together with an unchanged matrix
                acc.structural("index_list_present_when_reduced", unchanged and np.shape(Rd) == (n, n),
                               detail={"index_list": None, "rows": int(np.shape(Rd)[0]), "expected_groups": P2}, cex=dict(cexinfo, model=m))
                if not unchanged:
                    continue
            else:
                try:
                    ilc = [[int(x) for x in g] for g in il]
                except Exception:  # noqa: BLE001
                    ilc = repr(il)
                acc.structural("index_list", ilc == P2, detail={"got": ilc, "expected": P2}, cex=dict(cexinfo, model=m))
                acc.structural("one_group_per_row", len(il) == np.shape(Rd)[0], detail=(len(il), np.shape(Rd)), cex=dict(cexinfo, model=m))
                if ilc != P2:
                    continue
            expect = lump(M0, P2, shape["upper"], z3.RealVal(0), _zsum)
        kk = len(expect)
        if tuple(np.shape(Rd)) != (kk, kk):
            acc.structural("shape", False, detail=np.shape(Rd), cex=dict(cexinfo, model=m))
            continue
        claims = [(f"entry[{a},{b}]", z(Rd[a, b]) == expect[a][b]) for a in range(kk) for b in range(kk)]
        acc.add(prover.prove_all(path.premises, claims), make_cex=lambda r, c=cexinfo: dict(c))
    return acc.result(eng.stats, prover.stats)


def _model_of(prover, path):
    s = z3.Solver()
    s.set("timeout", 5000)
    s.add(*path.premises)
    nice = [z3.And(z3.Real("T") >= 250, z3.Real("T") <= 350)]
    if s.check(*nice) == z3.sat or s.check() == z3.sat:
        from symx.prove import model_to_dict
        return {k: (str(v) if not isinstance(v, bool) else v) for k, v in model_to_dict(s.model()).items()}
    return {}


# ------------------------------------------------------------------------------------------ replay on the real code
def _num_m0(n, model, seed=7):
    rng = np.random.default_rng(seed)
    base = rng.uniform(0.5, 3.0, size=(n, n))
    M = np.array([[fval(model, f"m{i}_{j}", base[i, j]) for j in range(n)] for i in range(n)], dtype=float)
    return M


def _fsum(l):
    return float(sum(l)) if l else 0.0


def replay(cex):
    import contextlib, io
    import scipy.sparse as rsp
    import molgri.molecules.rate_merger as RM
    import molgri.molecules.transitions as T
    shape = cex["shape"]
    n = shape["n"]
    model = cex.get("model", {}) or {}
    M0 = _num_m0(n, model)
    out = io.StringIO()
    if shape["kind"] == "cut":
        pattern = [tuple(p) for p in shape["pattern"]]
        keys = sorted(pattern + [(j, i) for i, j in pattern])
        E = np.array([fval(model, f"E{i}", float(i)) for i in range(n)], dtype=float)
        Tt = fval(model, "T", 300.0)
        lo = fval(model, "lower", 0.001) if shape["lower"] else None
        up = fval(model, "upper", 5.0) if shape["upper"] else None
        H = rsp.coo_array(([1.0] * len(keys), ([k[0] for k in keys], [k[1] for k in keys])), shape=(n, n))
        R = kB * N_A
        P2 = [[i] for i in range(n)]
        if lo is not None:
            P2 = spec_merge(P2, [(i, j) for (i, j) in pattern if abs(E[i] - E[j]) * 1000 / (R * Tt) < lo])
        if up is not None:
            P2 = spec_delete(P2, [i for i in range(n) if E[i] * 1000 / (R * Tt) > up])
        try:
            with contextlib.redirect_stdout(out):
                Rm, il = T.SQRA(E, np.ones(n), H, H).cut_and_merge(rsp.csr_array(M0), Tt, lo, up)
        except Exception as e:  # noqa: BLE001
            return {"reproduced": True, "detail": f"cut_and_merge(E={E.tolist()}, T={Tt}, lower={lo}, upper={up}) raised {e!r}"}
        Rd = np.asarray(Rm.toarray() if hasattr(Rm, "toarray") else Rm, dtype=float)
        if lo is None and up is None:
            bad = not (il is None and Rd.shape == (n, n) and np.allclose(Rd, M0))
            return {"reproduced": bad, "detail": f"no limits: index_list={il}, shape={Rd.shape}"}
        if il is None:
            bad = not (P2 == [[i] for i in range(n)] and Rd.shape == (n, n))
            return {"reproduced": bad, "detail": f"cut_and_merge(E={E.tolist()}, T={Tt}, lower={lo}, upper={up}) returned a "
                                                 f"{Rd.shape[0]}x{Rd.shape[1]} matrix with index list None; expected groups {P2}"}
        ilc = [[int(x) for x in g] for g in il]
        exp = np.array(lump(M0, P2, up is not None, 0.0, _fsum), dtype=float).reshape(len(P2), len(P2))
        bad = ilc != P2 or Rd.shape != exp.shape or not np.allclose(Rd, exp, rtol=1e-9, atol=1e-12)
        return {"reproduced": bool(bad), "detail": f"E={E.tolist()} T={Tt} lower={lo} upper={up}: index_list={ilc} expected {P2}; matrix ok={Rd.shape == exp.shape and np.allclose(Rd, exp)}"}
    P, deleted, sparse = shape["P"], shape["deleted"], shape["sparse"]
    op, arg, use_none = cex["op"], cex["arg"], cex.get("use_none", False)
    k = len(P)
    exact = shape.get("exact")
    if exact:
        pos0 = exact_pattern(n, exact)
        for i in range(n):
            for j in range(n):
                if (i, j) not in pos0:
                    M0[i][j] = 0.0
                elif (M0[i][j] <= 0) if i != j else (M0[i][j] >= 0):      # the variant's sign assumptions (model gaps filled with defaults)
                    M0[i][j] = (1.0 + 0.1 * i + 0.01 * j) * (1 if i != j else -1)
    cur = np.array(lump(M0, P, deleted, 0.0, _fsum), dtype=float).reshape(k, k)
    if exact:
        stored = sorted({(a, b) for a, A_ in enumerate(P) for b, B_ in enumerate(P) if any((i, j) in pos0 for i in A_ for j in B_) or (deleted and a == b)})
        A = rsp.csr_array((np.array([cur[a][b] for a, b in stored], dtype=float), ([a for a, b in stored], [b for a, b in stored])), shape=(k, k))
    else:
        A = rsp.csr_array(cur) if sparse else cur
    il = None if use_none else [list(g) for g in P]
    accept = acceptable_merges(P, [tuple(a) for a in arg]) if op == "merge" else [spec_delete(P, arg)]
    del2 = deleted if op == "merge" else True
    call = f"{'merge_matrix_cells' if op == 'merge' else 'delete_rate_cells'}(<{k}x{k} {'csr' if sparse else 'dense'}{' with stored entries ' + str(stored) if exact else ''}>, {arg}, index_list={il})"
    try:
        with contextlib.redirect_stdout(out):
            dec = np.array([[-3.0, 1, 2], [1, -5, 4], [2, 4, -6]])          # the decoy of the symbolic run
            d1, dil = RM.merge_matrix_cells(rsp.csr_array(dec) if sparse else dec, [[0, 2]], index_list=None)
            RM.delete_rate_cells(d1, [1], index_list=dil)
            if op == "merge":
                Rm, il2 = RM.merge_matrix_cells(A, [list(a) for a in arg], index_list=il)
            else:
                Rm, il2 = RM.delete_rate_cells(A, list(arg), index_list=il)
    except Exception as e:  # noqa: BLE001
        return {"reproduced": True, "detail": f"{call} raised {e!r} (state: groups {P}, after a deletion: {deleted})"}
    il2c = [[int(x) for x in g] for g in il2]
    Rd = np.asarray(Rm.toarray() if hasattr(Rm, "toarray") else Rm, dtype=float)
    bad = []
    if hasattr(Rm, "toarray") != sparse:
        bad.append(f"{'sparse' if sparse else 'dense'} input gave a {type(Rm).__name__}")
    P2 = il2c
    exp = np.array(lump(M0, P2, del2, 0.0, _fsum), dtype=float).reshape(len(P2), len(P2)) if il2c in accept else None
    if il2c not in accept:
        bad.append(f"index list {il2c} != expected {accept}")
    elif Rd.shape != exp.shape:
        bad.append(f"shape {Rd.shape}")
    elif not np.allclose(Rd, exp, rtol=1e-9, atol=1e-12):
        bad.append("matrix entries differ from the lumped original")
    return {"reproduced": bool(bad), "detail": f"{call}: {bad}"}


def finding_key(cex):
    s = cex["shape"]
    ob = cex["obligation"].split(":")[0].split("[")[0]
    if s["kind"] == "cut":
        return f"C13:cut:{ob}:lower={s['lower']}:upper={s['upper']}:{cex.get('exc', '')}"
    return f"C13:{cex.get('op')}:{ob}:{cex.get('exc', '')}"


def selftest(seed):
    n = sparse_selftest(seed, rounds=6)
    # the specification helpers against hand-computed cases from the property statement
    assert spec_merge([[0], [1, 2], [3]], [(0, 1), (2, 3)]) == [[0, 1, 2, 3]]
    assert acceptable_merges([[0], [2]], [(0, 1), (1, 2)]) == [[[0, 2]]]
    assert acceptable_merges([[0], [1, 2], [3]], [(0, 1), (2, 3)]) == [[[0, 1, 2, 3]]]
    assert spec_delete([[0, 1], [2], [3]], [1, 5]) == [[2], [3]]
    return n + 3
