"""C10 -- pseudotrajectory frame k is the rigid placement prescribed by grid row k.

Real `Pseudotrajectory.__init__` / `generate_pseudotrajectory` and `TwoMoleculeWriter._center_both_molecules` run on
symbolic atom positions, masses and an arbitrary symbolic grid array (positions and non-zero quaternions, not only grid
points); MDAnalysis and scipy Rotation are replaced by self-tested models.
"""
import itertools

import numpy as np
import z3

from symx.core import Engine, SR, noprint
from symx.arr import sarr
from symx.npproxy import NPProxy
from symx.models import FRot, FUniverse, FMerge, FMemUniverse, rotation_matrix_terms, models_selftest, real_universe
from symx.models import FFileUniverse, MdaFiles, TransModel, FILE_MASSES, file_universe_selftest, write_xyz, write_gro
from symx.prove import Prover
from symx.runner import Acc
from harness.common import bypass_guard, bound, z, fval, isclose

PROPERTY = "C10"
FUNCTIONS = ["molgri.molecules.pts.Pseudotrajectory.__init__", "Pseudotrajectory.generate_pseudotrajectory", "Pseudotrajectory.get_full_grid",
             "Pseudotrajectory.get_pt_as_universe", "Pseudotrajectory.get_one_molecule_pt_as_universe", "Pseudotrajectory._determine_which_molecule",
             "molgri.io.TwoMoleculeWriter._center_both_molecules"]
STUBS = ["MDAnalysis Universe/AtomGroup/Merge -> symx.models (positions getter returns a copy, rotate = R(x-p)+p, center_of_mass = sum(m x)/sum(m); "
         "self-tested against MDAnalysis each run)", "scipy Rotation.from_quat(q).as_matrix() -> scalar-last normalising closed form (self-tested)"]
ASSUMPTIONS = ["float modelled by the reals (MDAnalysis stores float32: rounding is outside the claim)", "masses > 0, quaternions non-zero"]
OUTSIDE = ["the file writers", "more atoms / frames than the bound"]


FUNCTIONS += ["molgri.io.OneMoleculeReader.__init__ / get_molecule (centring of a molecule read from a coordinate file)"]
STUBS += ["`reader` shapes: MDAnalysis.Universe(path) -> model of file-based readers (XYZ: indexing re-reads the frame and applies the registered "
          "transformations; GRO: single-frame reader keeps the current time step; copy() keeps the edited time step), differentially self-tested "
          "against real MDAnalysis on real files over the operation sequences the package uses; element masses -> fixed positive weights"]

def bounds(tier):
    extra = {"universe_api": "2 + 3 atoms, 3 frames (thorough 2 + 4, 5 frames); history with a caller editing the derived universes",
             "dimensions_keyword": "1-2 + 1-2 atoms, 2 frames, symbolic cell edge",
             "reader": "OneMoleculeReader on modelled XYZ files (1 or 2 frames) and GRO files, 2 grid rows, (1,2) and (2,3) atoms (thorough: up to 3 + 3), "
                       "symbolic coordinates, fixed positive weights"}
    if tier == "quick":
        return dict({"atoms_molecule1": [1, 2], "atoms_molecule2": [1, 2, 3, 4], "frames": [1, 2, 3, 4]}, **extra)
    return dict({"atoms_molecule1": [1, 2, 3], "atoms_molecule2": [1, 2, 3, 4, 5, 6], "frames": [1, 2, 3, 4, 5, 6]}, **extra)


def shapes(tier, seed):
    n1s, n2s, fs = ((1, 2), (1, 2, 3, 4), (1, 2, 3, 4)) if tier == "quick" else ((1, 2, 3), (1, 2, 3, 4, 5, 6), (1, 2, 3, 4, 5, 6))
    out = [{"kind": "pt", "n1": a, "n2": b, "frames": f} for a in n1s for b in n2s for f in fs]
    out += [{"kind": "pt", "n1": 1, "n2": b, "frames": 2, "history": True} for b in (1, 2, 3)]
    # the optional `dimensions` keyword (a periodic cell handed to the constructor) must not change any placement
    out += [{"kind": "pt", "n1": a, "n2": b, "frames": 2, "dims": True} for a in (1, 2) for b in (1, 2)]
    out += [{"kind": "center", "n1": a, "n2": b} for a in n1s for b in n2s]
    out += [{"kind": "universe", "n1": a, "n2": b, "frames": f} for a in (1, 2) for b in ((1, 2, 3) if tier == "quick" else (1, 2, 3, 4)) for f in ((1, 2, 3) if tier == "quick" else (1, 2, 3, 4, 5))]
    out.append({"kind": "rotation_lemma", "n1": 0, "n2": 0})
    # molecules read through the package's reader from coordinate files (the statement's "centred at their centre of mass")
    for fmt, ff in (("xyz", 1), ("xyz", 2), ("gro", 1)):
        for (a, b) in ((1, 2), (2, 3)) if tier == "quick" else ((1, 1), (1, 2), (2, 2), (2, 3), (3, 3)):
            out.append({"kind": "reader", "n1": a, "n2": b, "frames": 2, "fmt": fmt, "file_frames": ff})
    out.sort(key=lambda s: (s["n1"] + s["n2"]) * s.get("frames", 1))
    return out


def _vars(n1, n2, nframes):
    R = z3.Real
    x1 = [[R(f"s{a}_{c}") for c in range(3)] for a in range(n1)]
    x2 = [[R(f"m{a}_{c}") for c in range(3)] for a in range(n2)]
    w1 = [R(f"u{a}") for a in range(n1)]
    w2 = [R(f"w{a}") for a in range(n2)]
    grid = [[R(f"g{k}_{c}") for c in range(7)] for k in range(nframes)]
    return x1, x2, w1, w2, grid


def run_shape(shape):
    return {"center": run_center, "pt": run_pt, "rotation_lemma": run_lemma, "universe": run_universe, "reader": run_reader}[shape["kind"]](shape)


def run_lemma(shape):
    """the closed form R(q) used as oracle is a rotation for every non-zero quaternion: R^T R = I, det R = 1.  Together with the
    per-atom obligation x' = R(q)(x - c0) + c0 + p this gives 'all intramolecular distances are preserved' of the statement."""
    prover = Prover(timeout_ms=60000, budget_s=300)
    acc = Acc(shape)
    q = [z3.Real(c) for c in ("qx", "qy", "qz", "qw")]
    Rm = rotation_matrix_terms(q)
    n = z3.Sum([c * c for c in q])
    claims = [(f"orthogonal[{a},{b}]", z3.Sum([Rm[c][a] * Rm[c][b] for c in range(3)]) == (1 if a == b else 0)) for a in range(3) for b in range(a, 3)]
    det = Rm[0][0] * (Rm[1][1] * Rm[2][2] - Rm[1][2] * Rm[2][1]) - Rm[0][1] * (Rm[1][0] * Rm[2][2] - Rm[1][2] * Rm[2][0]) \
        + Rm[0][2] * (Rm[1][0] * Rm[2][1] - Rm[1][1] * Rm[2][0])
    claims.append(("det_is_1", det == 1))
    acc.paths = 1
    acc.reachable = prover.satisfiable([n > 0]) == "sat"
    acc.add([prover.prove(nm, [n > 0], c) for nm, c in claims])
    return acc.result({}, prover.stats)


def run_pt(shape):
    import molgri.molecules.pts as P
    n1, n2, nf = shape["n1"], shape["n2"], shape["frames"]
    x1, x2, w1, w2, grid = _vars(n1, n2, nf)
    eng = Engine()
    prover = Prover(timeout_ms=60000, budget_s=600)
    acc = Acc(shape)
    pre = [m > 0 for m in w1 + w2] + [z3.Sum([g[c] * g[c] for c in range(3, 7)]) > 0 for g in grid]
    for m in w1 + w2:
        eng.declare_sign(m, "+")
    eng.assume_global(*pre)
    names1, names2 = [f"A{i}" for i in range(n1)], [f"B{i}" for i in range(n2)]
    cell = z3.Real("cell")
    if shape.get("dims"):
        eng.assume_global(cell > 0)
        eng.declare_sign(cell, "+")

    def body():
        with bound(P, Rotation=FRot, Merge=FMerge, print=noprint, np=NPProxy()):
            u1 = FUniverse(sarr([[SR(v) for v in r] for r in x1]), sarr([SR(m) for m in w1]), names1)
            u2 = FUniverse(sarr([[SR(v) for v in r] for r in x2]), sarr([SR(m) for m in w2]), names2)
            # another pseudotrajectory of the same process (other molecules, other grid rows) is generated completely first
            d1 = FUniverse(sarr([[0.5, -1.0, 2.0]]), sarr([3.0]), ["D0"])
            d2 = FUniverse(sarr([[1.0, 0.0, 0.0], [0.0, 2.0, 0.0]]), sarr([1.0, 2.0]), ["E0", "E1"])
            list(P.Pseudotrajectory(d1, d2, sarr([[1.0, 2.0, 3.0, 0.0, 0.6, 0.0, 0.8], [0.0, -1.0, 0.5, 1.0, 0.0, 0.0, 0.0]])).generate_pseudotrajectory())
            if shape.get("history"):
                # history: a first pseudotrajectory is started on the same molecules and abandoned after one frame
                first = P.Pseudotrajectory(u1, u2, sarr([[SR(v) for v in g] for g in grid])).generate_pseudotrajectory()
                next(first)
            if shape.get("dims"):
                pt = P.Pseudotrajectory(u1, u2, sarr([[SR(v) for v in g] for g in grid]), dimensions=(SR(cell), SR(cell), SR(cell), 90, 90, 90))
            else:
                pt = P.Pseudotrajectory(u1, u2, sarr([[SR(v) for v in g] for g in grid]))
            frames = [(i, u.atoms.positions.copy(), list(u.atoms.names)) for i, u in pt.generate_pseudotrajectory()]
            # the caller's universes must not have been moved
            return frames, u1.atoms.positions.copy(), u2.atoms.positions.copy()

    Mtot = z3.Sum(w2)
    c0 = [z3.Sum([w2[a] * x2[a][c] for a in range(n2)]) / Mtot for c in range(3)]
    for path in eng.explore(body):
        acc.begin(prover, path)
        if path.kind == "exc":
            acc.structural("no_exception", False, detail=repr(path.value) + (path.tb or "")[-600:], cex={"kind": "exception", "exc": type(path.value).__name__})
            continue
        if acc.reachable is not True:
            acc.reach(prover.satisfiable(path.premises))
        frames, in1, in2 = path.value
        acc.structural("one_frame_per_row", len(frames) == nf, detail=len(frames))
        if len(frames) != nf:
            continue
        claims = []
        okn = True
        for k, (idx, pos, names) in enumerate(frames):
            okn = okn and idx == k and names == names1 + names2 and tuple(pos.shape) == (n1 + n2, 3)
        acc.structural("frame_index_and_atom_order", okn, detail=[(f[0], f[2]) for f in frames])
        if not okn:
            continue
        for k, (idx, pos, names) in enumerate(frames):
            Rm = rotation_matrix_terms(grid[k][3:])
            for a in range(n1):
                for c in range(3):
                    claims.append((f"static[{k},{a},{c}]", z(pos[a, c]) == x1[a][c]))
            for a in range(n2):
                for c in range(3):
                    exp = z3.Sum([Rm[c][d] * (x2[a][d] - c0[d]) for d in range(3)]) + c0[c] + grid[k][c]
                    claims.append((f"moving[{k},{a},{c}]", z(pos[n1 + a, c]) == exp))
        for a in range(n1):
            for c in range(3):
                claims.append((f"input1_untouched[{a},{c}]", z(in1[a, c]) == x1[a][c]))
        for a in range(n2):
            for c in range(3):
                claims.append((f"input2_untouched[{a},{c}]", z(in2[a, c]) == x2[a][c]))
        acc.add(prover.prove_all(path.premises, claims, max_cex=3))
        # consequence named in the statement: COM at c0+p_k (distance preservation: see run_lemma)
        k = 0
        pos = frames[k][1]
        com = [z3.Sum([w2[a] * z(pos[n1 + a, c]) for a in range(n2)]) / Mtot for c in range(3)]
        cons = [(f"com[{k},{c}]", com[c] == c0[c] + grid[k][c]) for c in range(3)]
        acc.add(prover.prove_all(path.premises, cons, max_cex=2))
    return acc.result(eng.stats, prover.stats)


READER_NAMES = ["C", "H", "O", "N"]
# weights of the symbolic run: positive, and every partial sum is exact in floating point (the model adds them as floats, the solver as
# rationals; with 12.011 + 1.008 the two sums differ in the 16th digit and the "centre of mass" of a centred molecule is 1e-16, not 0)
READER_WEIGHTS = {"C": 12.0, "H": 1.0, "O": 16.0, "N": 14.0}


def _reader_files(shape, x1, x2, conv):
    """two coordinate files: molecule 1 / molecule 2 with the given first frames (a second frame, if any, is a shifted copy)"""
    n1, n2, fmt, ff = shape["n1"], shape["n2"], shape["fmt"], shape["file_frames"]
    kind = "single" if fmt == "gro" else "multi"
    def frames(x):
        fr = [[[conv(v) for v in r] for r in x]]
        if ff == 2:
            fr.append([[conv(v) + 3.0 for v in r] for r in x])
        return fr
    return {f"m1.{fmt}": (frames(x1), READER_NAMES[:n1], kind), f"m2.{fmt}": (frames(x2), [READER_NAMES[(i + 1) % 4] for i in range(n2)], kind)}


def run_reader(shape):
    """Molecules as the package reads them: OneMoleculeReader(path) (real) on modelled coordinate files -- an XYZ file with one or two
    frames (a reader that re-reads a frame when it is indexed) or a GRO file (single-frame reader) -- with SYMBOLIC coordinates, then the real
    Pseudotrajectory.  Frame k must show molecule 1 centred at its centre of mass and molecule 2's CENTRED reference rotated by row k's
    quaternion and moved to row k's position."""
    import molgri.molecules.pts as P
    import molgri.io as IO
    n1, n2, nf, fmt = shape["n1"], shape["n2"], shape["frames"], shape["fmt"]
    x1, x2, _, _, grid = _vars(n1, n2, nf)
    eng = Engine()
    prover = Prover(timeout_ms=60000, budget_s=600)
    acc = Acc(shape)
    eng.assume_global(*[z3.Sum([g[c] * g[c] for c in range(3, 7)]) > 0 for g in grid])
    files = _reader_files(shape, x1, x2, lambda v: SR(v))
    names1, names2 = files[f"m1.{fmt}"][1], files[f"m2.{fmt}"][1]

    def body():
        with bound(IO, mda=MdaFiles(files, READER_WEIGHTS), trans=TransModel, print=noprint), bound(P, Rotation=FRot, Merge=FMerge, print=noprint, np=NPProxy()):
            mol1 = IO.OneMoleculeReader(f"m1.{fmt}").get_molecule()
            mol2 = IO.OneMoleculeReader(f"m2.{fmt}").get_molecule()
            pt = P.Pseudotrajectory(mol1, mol2, sarr([[SR(v) for v in g] for g in grid]))
            return [(i, u.atoms.positions.copy(), list(u.atoms.names)) for i, u in pt.generate_pseudotrajectory()]

    def com(fn):
        # the mass-weighted mean with the very floats the reader model uses for the guessed masses (no second rounding in the oracle)
        fr, nm, kd = files[fn]
        return [z(v) for v in FFileUniverse(fr, nm, kd, READER_WEIGHTS).atoms.center_of_mass()]
    c1, c2 = com(f"m1.{fmt}"), com(f"m2.{fmt}")
    for path in eng.explore(body):
        acc.begin(prover, path)
        if path.kind == "exc":
            acc.structural("no_exception", False, detail=repr(path.value) + (path.tb or "")[-600:], cex={"kind": "exception", "exc": type(path.value).__name__})
            continue
        if acc.reachable is not True:
            acc.reach(prover.satisfiable(path.premises))
        frames = path.value
        okn = len(frames) == nf and all(idx == k and names == names1 + names2 and tuple(pos.shape) == (n1 + n2, 3) for k, (idx, pos, names) in enumerate(frames))
        acc.structural("one_frame_per_row_with_the_atoms_of_both_molecules", okn, detail=[(f[0], f[2]) for f in frames])
        if not okn:
            continue
        claims = []
        for k, (idx, pos, names) in enumerate(frames):
            Rm = rotation_matrix_terms(grid[k][3:])
            for a in range(n1):
                for c in range(3):
                    claims.append((f"molecule1_is_its_file_geometry_centred[{k},{a},{c}]", z(pos[a, c]) == x1[a][c] - c1[c]))
            for a in range(n2):
                for c in range(3):
                    exp = z3.Sum([Rm[c][d] * (x2[a][d] - c2[d]) for d in range(3)]) + grid[k][c]
                    claims.append((f"molecule2_is_its_centred_file_geometry_rotated_and_placed[{k},{a},{c}]", z(pos[n1 + a, c]) == exp))
        acc.add(prover.prove_all(path.premises, claims, max_cex=3))
    return acc.result(eng.stats, prover.stats)


def replay_reader(cex):
    """the same through real files and real MDAnalysis readers"""
    import contextlib, io, os, tempfile, warnings
    import molgri.molecules.pts as P
    import molgri.io as IO
    shape = cex["shape"]
    model = cex.get("model", {}) or {}
    rng = np.random.default_rng(13)
    n1, n2, nf, fmt = shape["n1"], shape["n2"], shape["frames"], shape["fmt"]
    g = lambda nm, d: fval(model, nm, d)
    bad = []
    d = tempfile.mkdtemp(prefix="c10_reader_")
    try:
        for trial in range(3):
            use = model if trial == 0 else {}
            gg = lambda nm, dflt: fval(use, nm, dflt)
            x1 = np.round(np.clip(np.array([[gg(f"s{a}_{c}", float(rng.normal() * 2 + 4)) for c in range(3)] for a in range(n1)]), -40, 40), 2)
            x2 = np.round(np.clip(np.array([[gg(f"m{a}_{c}", float(rng.normal() * 2 - 3)) for c in range(3)] for a in range(n2)]), -40, 40), 2)
            grid = np.array([[gg(f"g{k}_{c}", float(rng.normal())) for c in range(7)] for k in range(nf)])
            grid[:, :3] = np.clip(grid[:, :3], -40, 40)
            for k in range(nf):
                if np.linalg.norm(grid[k, 3:]) < 1e-3 or np.abs(grid[k, 3:]).max() > 1e3:
                    grid[k, 3:] = [0.1, 0.2, 0.3, 0.9]
            files = _reader_files(shape, x1, x2, float)
            for fn, (frames, names, kind) in files.items():
                (write_xyz if fmt == "xyz" else (lambda p_, fr, nm: write_gro(p_, fr[0], nm)))(os.path.join(d, fn), np.array(frames, dtype=float), names)
            names1, names2 = files[f"m1.{fmt}"][1], files[f"m2.{fmt}"][1]
            m1, m2 = np.array([FILE_MASSES[nm] for nm in names1]), np.array([FILE_MASSES[nm] for nm in names2])
            try:
                with warnings.catch_warnings(), contextlib.redirect_stdout(io.StringIO()):
                    warnings.simplefilter("ignore")
                    mol1 = IO.OneMoleculeReader(os.path.join(d, f"m1.{fmt}")).get_molecule()
                    mol2 = IO.OneMoleculeReader(os.path.join(d, f"m2.{fmt}")).get_molecule()
                    frames = [(i, u.atoms.positions.copy()) for i, u in P.Pseudotrajectory(mol1, mol2, grid).generate_pseudotrajectory()]
            except Exception as e:  # noqa: BLE001
                return {"reproduced": True, "detail": f"raised {e!r}"}
            c1, c2 = (m1[:, None] * x1).sum(axis=0) / m1.sum(), (m2[:, None] * x2).sum(axis=0) / m2.sum()
            tol = 5e-3 * max(1.0, np.abs(x1).max(), np.abs(x2).max(), np.abs(grid[:, :3]).max())
            if len(frames) != nf:
                bad.append(f"{len(frames)} frames for {nf} rows")
                continue
            for k in range(nf):
                Rm = np.array(rotation_matrix_terms(list(grid[k, 3:])), dtype=float)
                exp = np.vstack([x1 - c1, (x2 - c2) @ Rm.T + grid[k, :3]])
                if frames[k][1].shape != exp.shape or not np.allclose(frames[k][1], exp, atol=tol):
                    off = float(np.abs(frames[k][1] - exp).max()) if frames[k][1].shape == exp.shape else float("nan")
                    bad.append(f"{fmt} files (molecule 1 at {x1.tolist()}, molecule 2 at {x2.tolist()}), row {k}: atoms are off by up to {off:.3f} A from the prescribed placement of the centred molecules")
                    break
    finally:
        for f_ in os.listdir(d):
            os.remove(os.path.join(d, f_))
        os.rmdir(d)
    return {"reproduced": bool(bad), "detail": str(bad[:2])}


def _universe_history(P, u1, u2, grid, shift):
    """the trajectory-as-universe API on one Pseudotrajectory object, with a caller that edits (in place, frame by frame) the derived
    one-molecule universes it was handed; works on the models (symbolic) and on real MDAnalysis (replay) alike"""
    pt = P.Pseudotrajectory(u1, u2, grid)
    U = pt.get_pt_as_universe()
    out = {"names": list(U.atoms.names), "frames": [(ts.frame, U.atoms.positions.copy()) for ts in U.trajectory]}
    m2 = pt.get_one_molecule_pt_as_universe(return_mol2=True)
    out["names2"], out["frames2"] = list(m2.atoms.names), [m2.atoms.positions.copy() for ts in m2.trajectory]
    m1 = pt.get_one_molecule_pt_as_universe(return_mol2=False)
    out["names1"], out["frames1"] = list(m1.atoms.names), [m1.atoms.positions.copy() for ts in m1.trajectory]
    for mu in (m2, m1):
        for ts in mu.trajectory:
            mu.atoms.translate(shift)
    U2 = pt.get_pt_as_universe()
    out["frames_again"] = [(ts.frame, U2.atoms.positions.copy()) for ts in U2.trajectory]
    m2b = pt.get_one_molecule_pt_as_universe(return_mol2=True)
    out["frames2_again"] = [m2b.atoms.positions.copy() for ts in m2b.trajectory]
    return out


def run_universe(shape):
    """`get_pt_as_universe` / `get_one_molecule_pt_as_universe`: one frame per grid row in row order, frame k is the prescribed placement,
    the one-molecule universes are the corresponding atom blocks, and all of it still holds after the caller edited the derived universes"""
    import molgri.molecules.pts as P
    n1, n2, nf = shape["n1"], shape["n2"], shape["frames"]
    x1, x2, w1, w2, grid = _vars(n1, n2, nf)
    eng = Engine()
    prover = Prover(timeout_ms=60000, budget_s=600)
    acc = Acc(shape)
    pre = [m > 0 for m in w1 + w2] + [z3.Sum([g[c] * g[c] for c in range(3, 7)]) > 0 for g in grid]
    for m in w1 + w2:
        eng.declare_sign(m, "+")
    eng.assume_global(*pre)
    names1, names2 = [f"A{i}" for i in range(n1)], [f"B{i}" for i in range(n2)]

    def body():
        with bound(P, Rotation=FRot, Merge=FMerge, Universe=FMemUniverse, MemoryReader="MemoryReader", print=noprint, np=NPProxy()):
            u1 = FUniverse(sarr([[SR(v) for v in r] for r in x1]), sarr([SR(m) for m in w1]), names1)
            u2 = FUniverse(sarr([[SR(v) for v in r] for r in x2]), sarr([SR(m) for m in w2]), names2)
            return _universe_history(P, u1, u2, sarr([[SR(v) for v in g] for g in grid]), [1, 2, 3])

    Mtot = z3.Sum(w2)
    c0 = [z3.Sum([w2[a] * x2[a][c] for a in range(n2)]) / Mtot for c in range(3)]

    def expected(k, a, c):
        if a < n1:
            return x1[a][c]
        Rm = rotation_matrix_terms(grid[k][3:])
        return z3.Sum([Rm[c][d] * (x2[a - n1][d] - c0[d]) for d in range(3)]) + c0[c] + grid[k][c]

    for path in eng.explore(body):
        acc.begin(prover, path)
        if path.kind == "exc":
            acc.structural("no_exception", False, detail=repr(path.value) + (path.tb or "")[-600:], cex={"kind": "exception", "exc": type(path.value).__name__})
            continue
        if acc.reachable is not True:
            acc.reach(prover.satisfiable(path.premises))
        o = path.value
        ok = (len(o["frames"]) == nf and [f[0] for f in o["frames"]] == list(range(nf)) and o["names"] == names1 + names2
              and all(tuple(f[1].shape) == (n1 + n2, 3) for f in o["frames"]))
        acc.structural("universe_one_frame_per_row_in_order", ok, detail=(len(o["frames"]), o["names"]))
        ok1 = len(o["frames1"]) == nf and o["names1"] == names1 and all(tuple(f.shape) == (n1, 3) for f in o["frames1"])
        ok2 = len(o["frames2"]) == nf and o["names2"] == names2 and all(tuple(f.shape) == (n2, 3) for f in o["frames2"])
        acc.structural("one_molecule_universes_frames_and_atoms", ok1 and ok2, detail=(len(o["frames1"]), o["names1"], len(o["frames2"]), o["names2"]))
        oka = len(o["frames_again"]) == nf and len(o["frames2_again"]) == nf and all(tuple(f[1].shape) == (n1 + n2, 3) for f in o["frames_again"]) \
            and all(tuple(f.shape) == (n2, 3) for f in o["frames2_again"])
        acc.structural("after_caller_edits_frames_and_atoms", oka, detail=(len(o["frames_again"]), len(o["frames2_again"])))
        if not (ok and ok1 and ok2 and oka):
            continue
        claims = []
        for k in range(nf):
            for a in range(n1 + n2):
                for c in range(3):
                    e = expected(k, a, c)
                    claims.append((f"universe_frame[{k},{a},{c}]", z(o["frames"][k][1][a, c]) == e))
                    claims.append((f"universe_frame_after_caller_edited_derived_universes[{k},{a},{c}]", z(o["frames_again"][k][1][a, c]) == e))
                    if a < n1:
                        claims.append((f"molecule1_universe[{k},{a},{c}]", z(o["frames1"][k][a, c]) == e))
                    else:
                        claims.append((f"molecule2_universe[{k},{a - n1},{c}]", z(o["frames2"][k][a - n1, c]) == e))
                        claims.append((f"molecule2_universe_again[{k},{a - n1},{c}]", z(o["frames2_again"][k][a - n1, c]) == e))
        acc.add(prover.prove_all(path.premises, claims, max_cex=3))
    return acc.result(eng.stats, prover.stats)


def run_center(shape):
    import molgri.io as IO
    n1, n2 = shape["n1"], shape["n2"]
    x1, x2, w1, w2, _ = _vars(n1, n2, 0)
    eng = Engine()
    prover = Prover(timeout_ms=30000, budget_s=300)
    acc = Acc(shape)
    eng.assume_global(*[m > 0 for m in w1 + w2])
    for m in w1 + w2:
        eng.declare_sign(m, "+")

    def body():
        w = object.__new__(IO.TwoMoleculeWriter)
        w.central_molecule = FUniverse(sarr([[SR(v) for v in r] for r in x1]), sarr([SR(m) for m in w1]), [f"A{i}" for i in range(n1)])
        w.moving_molecule = FUniverse(sarr([[SR(v) for v in r] for r in x2]), sarr([SR(m) for m in w2]), [f"B{i}" for i in range(n2)])
        w._center_both_molecules()
        return w.central_molecule.atoms.positions, w.moving_molecule.atoms.positions

    for path in eng.explore(body):
        acc.begin(prover, path)
        if path.kind == "exc":
            bypass_guard(path.value)
            acc.structural("no_exception", False, detail=repr(path.value) + (path.tb or "")[-600:], cex={"kind": "exception", "exc": type(path.value).__name__})
            continue
        if acc.reachable is not True:
            acc.reach(prover.satisfiable(path.premises))
        p1, p2 = path.value
        claims = []
        for (p, w, x, nm) in ((p1, w1, x1, "mol1"), (p2, w2, x2, "mol2")):
            M = z3.Sum(w)
            for c in range(3):
                claims.append((f"com_zero[{nm},{c}]", z3.Sum([w[a] * z(p[a, c]) for a in range(len(w))]) == 0))
                c0 = z3.Sum([w[a] * x[a][c] for a in range(len(w))]) / M
                for a in range(len(w)):
                    claims.append((f"pure_translation[{nm},{a},{c}]", z(p[a, c]) == x[a][c] - c0))
        acc.add(prover.prove_all(path.premises, claims))
    return acc.result(eng.stats, prover.stats)


# ------------------------------------------------------------------------------------------ replay on the real code
def replay(cex):
    import contextlib, io, warnings
    import molgri.molecules.pts as P
    shape = cex["shape"]
    model = cex.get("model", {}) or {}
    rng = np.random.default_rng(11)
    n1, n2 = shape["n1"], shape["n2"]
    nf = shape.get("frames", 0)
    g = lambda nm, d: fval(model, nm, d)
    x1 = np.array([[g(f"s{a}_{c}", float(rng.normal())) for c in range(3)] for a in range(n1)])
    x2 = np.array([[g(f"m{a}_{c}", float(rng.normal())) for c in range(3)] for a in range(n2)])
    w1 = [abs(g(f"u{a}", 1.0 + a)) or 1.0 for a in range(n1)]
    w2 = [abs(g(f"w{a}", 12.0 + 3 * a)) or 1.0 for a in range(n2)]
    # keep magnitudes in a range where float32 positions resolve differences
    scale = max(1.0, np.abs(x1).max(), np.abs(x2).max())
    with warnings.catch_warnings(), contextlib.redirect_stdout(io.StringIO()):
        warnings.simplefilter("ignore")
        if shape["kind"] == "rotation_lemma":
            return {"reproduced": False, "detail": "lemma about the oracle's closed form, no code involved"}
        if shape["kind"] == "reader":
            return replay_reader(cex)
        if shape["kind"] == "center":
            import molgri.io as IO
            w = object.__new__(IO.TwoMoleculeWriter)
            w.central_molecule = real_universe(x1, w1, [f"A{i}" for i in range(n1)])
            w.moving_molecule = real_universe(x2, w2, [f"B{i}" for i in range(n2)])
            w._center_both_molecules()
            bad = [nm for nm, u in (("mol1", w.central_molecule), ("mol2", w.moving_molecule)) if not np.allclose(u.atoms.center_of_mass(), 0, atol=1e-4 * scale)]
            return {"reproduced": bool(bad), "detail": f"centre of mass not at the origin after centring: {bad}"}
        grid = np.array([[g(f"g{k}_{c}", float(rng.normal())) for c in range(7)] for k in range(nf)])
        for k in range(nf):
            if np.linalg.norm(grid[k, 3:]) < 1e-6:
                grid[k, 3:] = [0.1, 0.2, 0.3, 0.9]
        u1 = real_universe(x1, w1, [f"A{i}" for i in range(n1)])
        u2 = real_universe(x2, w2, [f"B{i}" for i in range(n2)])
        if shape["kind"] == "universe":
            try:
                o = _universe_history(P, u1, u2, grid, [1.0, 2.0, 3.0])
            except Exception as e:  # noqa: BLE001
                return {"reproduced": True, "detail": f"raised {e!r}"}
            x1f, x2f = np.asarray(x1, dtype=np.float32).astype(float), np.asarray(x2, dtype=np.float32).astype(float)
            c0 = (np.array(w2)[:, None] * x2f).sum(axis=0) / sum(w2)
            tol = 2e-4 * max(1.0, scale, np.abs(grid).max() if nf else 1.0)
            bad = []
            nm1, nm2 = [f"A{i}" for i in range(n1)], [f"B{i}" for i in range(n2)]
            if len(o["frames"]) != nf or [f[0] for f in o["frames"]] != list(range(nf)) or o["names"] != nm1 + nm2:
                bad.append(f"universe: {len(o['frames'])} frames for {nf} rows / names {o['names']}")
            if len(o["frames1"]) != nf or len(o["frames2"]) != nf or o["names1"] != nm1 or o["names2"] != nm2:
                bad.append("one-molecule universes: wrong frames / atoms")
            if not bad:
                for k in range(nf):
                    Rm = np.array(rotation_matrix_terms(list(grid[k, 3:])), dtype=float)
                    exp = np.vstack([x1f, (x2f - c0) @ Rm.T + c0 + grid[k, :3]])
                    for tag, got in (("universe_frame", o["frames"][k][1]), ("universe_frame_after_caller_edited_derived_universes", o["frames_again"][k][1]),
                                     ("molecule1_universe", np.vstack([o["frames1"][k], exp[n1:]])), ("molecule2_universe", np.vstack([exp[:n1], o["frames2"][k]])),
                                     ("molecule2_universe_again", np.vstack([exp[:n1], o["frames2_again"][k]]))):
                        if np.shape(got) != exp.shape or not np.allclose(got, exp, atol=tol):
                            bad.append(f"{tag}[{k}]")
            return {"reproduced": bool(bad), "detail": f"{bad[:6]}"}
        dd1 = real_universe([[0.5, -1.0, 2.0]], [3.0], ["D0"])       # the decoy of the symbolic run
        dd2 = real_universe([[1.0, 0.0, 0.0], [0.0, 2.0, 0.0]], [1.0, 2.0], ["E0", "E1"])
        list(P.Pseudotrajectory(dd1, dd2, np.array([[1.0, 2.0, 3.0, 0.0, 0.6, 0.0, 0.8], [0.0, -1.0, 0.5, 1.0, 0.0, 0.0, 0.0]])).generate_pseudotrajectory())
        if shape.get("history"):
            first = P.Pseudotrajectory(u1, u2, grid).generate_pseudotrajectory()
            next(first)
        try:
            kw = {}
            if shape.get("dims"):
                c_ = abs(g("cell", 30.0)) or 30.0
                kw["dimensions"] = (c_, c_, c_, 90, 90, 90)
            frames = [(i, u.atoms.positions.copy(), list(u.atoms.names)) for i, u in P.Pseudotrajectory(u1, u2, grid, **kw).generate_pseudotrajectory()]
        except Exception as e:  # noqa: BLE001
            return {"reproduced": True, "detail": f"raised {e!r}"}
    bad = []
    if not np.allclose(u1.atoms.positions, np.asarray(x1, dtype=np.float32), atol=1e-5) or not np.allclose(u2.atoms.positions, np.asarray(x2, dtype=np.float32), atol=1e-5):
        bad.append("the caller's universes were moved")
    if len(frames) != nf:
        bad.append(f"{len(frames)} frames for {nf} rows")
    x1f, x2f = np.asarray(x1, dtype=np.float32).astype(float), np.asarray(x2, dtype=np.float32).astype(float)
    c0 = (np.array(w2)[:, None] * x2f).sum(axis=0) / sum(w2)
    tol = 2e-4 * max(1.0, scale, np.abs(grid).max() if nf else 1.0)
    for k, (idx, pos, names) in enumerate(frames[:nf]):
        if idx != k or names != [f"A{i}" for i in range(n1)] + [f"B{i}" for i in range(n2)]:
            bad.append(f"frame {k}: index {idx}, names {names}")
            continue
        q = grid[k, 3:]
        Rm = np.array(rotation_matrix_terms(list(q)), dtype=float)
        exp2 = (x2f - c0) @ Rm.T + c0 + grid[k, :3]
        if not np.allclose(pos[:n1], x1f, atol=tol):
            bad.append(f"static[{k}]")
        if not np.allclose(pos[n1:], exp2, atol=tol):
            bad.append(f"moving[{k}] max deviation {np.abs(pos[n1:] - exp2).max():.3g}")
    return {"reproduced": bool(bad), "detail": f"{bad[:6]}"}


def finding_key(cex):
    s = cex["shape"]
    return f"C10:{s['kind']}{':history' if s.get('history') else ''}{':dims' if s.get('dims') else ''}:{cex['obligation'].split('[')[0]}"


def selftest(seed):
    return models_selftest(seed, rounds=4) + file_universe_selftest(seed)
