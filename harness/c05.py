"""C05 -- spherical-shell position cells tile the ball: exact volumes, faces, distances.

Real `PositionGrid._get_N_N_position_array` (three properties), `get_all_position_volumes`, the three public getters,
`_t_and_o_2_positions`, `get_between_radii`, `get_increments` run on symbolic radii 0<r_1<...<r_T and an arbitrary
symbolic unit-sphere geometry (areas, arcs, angles > 0 on every symmetric pattern).
"""
import itertools

import numpy as np
import z3

from symx.core import Engine, SR, noprint, PI
from symx.arr import sarr
from symx import sparse as sp
from symx.npproxy import NPProxy
from symx.prove import Prover
from symx.runner import Acc
from symx.selftest import sparse_selftest
from harness.common import real_code, RealCodeRaised, bound, z, fval, sym_patterns, isclose
from harness.geom import DirStub, position_spec
from harness.fgstub import make_positiongrid, exercise_position_decoys, decoy_value_factory, float_decoy_values

PROPERTY = "C05"
FUNCTIONS = ["molgri.space.fullgrid.PositionGrid._get_N_N_position_array", "PositionGrid.get_all_position_volumes",
             "PositionGrid.get_adjacency_of_position_grid", "PositionGrid.get_borders_of_position_grid",
             "PositionGrid.get_distances_of_position_grid", "PositionGrid.get_position_grid_as_array", "PositionGrid.get_radii",
             "molgri.space.fullgrid._t_and_o_2_positions", "molgri.space.translations.get_between_radii",
             "molgri.space.translations.get_increments", "TranslationParser.get_increments/get_trans_grid/get_N_trans"]
STUBS = ["direction grid (SphericalVoronoi/Qhull) -> DirStub: arbitrary areas, arcs, angles > 0 on a symmetric pattern",
         "scipy.sparse coo_array/diags/bmat -> symx.sparse exact-order models", "np constructors -> object arrays"]
ASSUMPTIONS = ["float modelled by the reals", "unit-sphere quantities are positive and symmetric on one pattern (that they are the true "
               "Voronoi quantities is C03, not applicable)", "radii strictly increasing and positive"]
HISTORY = "other PositionGrid objects of the same process (collision twin, Cartesian twin) are built and queried before and after the construction of the grid under test"
OUTSIDE = ["n_o, T beyond the bound", "the unit-sphere quantities themselves", "T=1 (see C19/C16)", "Cartesian mode (C06)"]


def bounds(tier):
    return {"n_o": [1, 2, 3, 4] if tier == "quick" else [1, 2, 3, 4, 5], "T": [2, 3, 4] if tier == "quick" else [2, 3, 4, 5, 6],
            "patterns": "all symmetric direction-adjacency patterns for n_o<=4; n_o=5: empty, complete, ring and seeded ones"}


def shapes(tier, seed):
    out = []
    no_s = [1, 2, 3, 4] if tier == "quick" else [1, 2, 3, 4, 5]
    ts = [2, 3, 4] if tier == "quick" else [2, 3, 4, 5, 6]
    rng = np.random.default_rng(seed)
    for n_o in no_s:
        pats = list(sym_patterns(n_o))
        if n_o == 5:
            allp = pats
            ring = tuple(sorted(tuple(sorted((i, (i + 1) % 5))) for i in range(5)))
            pats = [allp[0], allp[-1], ring] + [allp[int(k)] for k in rng.integers(0, len(allp), size=9)]
        for pat in pats:
            for T in ts:
                out.append({"n_o": n_o, "n_t": T, "pattern": [list(p) for p in pat]})
    out.sort(key=lambda s: (s["n_o"] * s["n_t"], len(s["pattern"])))
    return out


def _vars(n_o, n_t, pattern):
    R = z3.Real
    area = [R(f"a{i}") for i in range(n_o)]
    arc, ang = {}, {}
    for (i, j) in pattern:
        arc[(i, j)] = arc[(j, i)] = R(f"arc{i}_{j}")
        ang[(i, j)] = ang[(j, i)] = R(f"ang{i}_{j}")
    r = [R(f"r{k}") for k in range(n_t)]
    return area, arc, ang, r


def run_shape(shape):
    import molgri.space.fullgrid as F
    import molgri.space.translations as TR
    n_o, n_t = shape["n_o"], shape["n_t"]
    pattern = [tuple(p) for p in shape["pattern"]]
    area, arc, ang, r = _vars(n_o, n_t, pattern)
    eng = Engine()
    prover = Prover(timeout_ms=20000)
    acc = Acc(shape)
    pos = area + list(set(arc.values())) + list(set(ang.values())) + r
    pre = [v > 0 for v in pos] + [r[k + 1] > r[k] for k in range(n_t - 1)]
    eng.assume_global(*pre)
    for v in pos:
        eng.declare_sign(v, "+")
    o = DirStub(n_o, pattern, [SR(a) for a in area], {k: SR(v) for k, v in arc.items()}, {k: SR(v) for k, v in ang.items()},
                sp, lambda l: sarr(l))
    proxy = NPProxy()
    dv = decoy_value_factory(eng)

    def body():
        with bound(F, bmat=sp.bmat, kron=sp.kron, identity=sp.identity, eye=sp.eye, block_diag=sp.block_diag, coo_matrix=sp.coo_array, csr_matrix=sp.csr_array, csc_matrix=sp.csc_array, csr_array=sp.csr_array, csc_array=sp.csc_array, coo_array=sp.coo_array, diags=sp.diags, print=noprint, np=proxy), \
                bound(TR, np=proxy, print=noprint):
            radii = sarr([SR(x) for x in r])
            # other grids of the same process (a collision twin with other radii under the same name, a Cartesian twin under the same
            # names): built and asked for everything BEFORE the grid under test exists and again AFTER its construction
            exercise_position_decoys(F, TR, o, radii, sarr, dv, tag="A")
            pg = make_positiongrid(F, TR, o, radii)
            exercise_position_decoys(F, TR, o, radii, sarr, dv, tag="B")
            A, B, D = pg.get_adjacency_of_position_grid(), pg.get_borders_of_position_grid(), pg.get_distances_of_position_grid()
            A2 = pg._get_N_N_position_array("adjacency")
            return A, B, D, pg.get_all_position_volumes(), A2, len(pg)

    Rb, vol, adj, bor, dis = position_spec(n_o, n_t, area, arc, ang, r, zero=z3.RealVal(0))
    n = n_o * n_t
    for path in eng.explore(body):
        acc.begin(prover, path)
        if path.kind == "exc":
            acc.structural("no_exception", False, detail=repr(path.value) + (path.tb or "")[-600:],
                           cex={"kind": "exception", "exc": type(path.value).__name__})
            continue
        A, B, D, V, A2, ln = path.value
        prem = path.premises
        if acc.reachable is not True:
            acc.reach(prover.satisfiable(prem))
        acc.structural("len", ln == n, detail=ln)
        acc.structural("shapes", A.shape == B.shape == D.shape == (n, n) and len(V) == n, detail=(A.shape, B.shape, D.shape, len(V)))
        same = all(getattr(M, "format", None) == "coo" for M in (A, B, D)) and \
            list(A.row) == list(B.row) == list(D.row) and list(A.col) == list(B.col) == list(D.col)
        acc.structural("same_pattern_and_entry_order", same, detail="row/col sequences of adjacency, borders, distances differ")
        Ad, Bd, Dd = A.toarray(), B.toarray(), D.toarray()
        claims = []
        for p in range(n):
            claims.append((f"vol[{p}]", z(V[p]) == vol[p]))
            for q in range(n):
                claims.append((f"adj[{p},{q}]", z(Ad[p, q]) == adj[p][q]))
                claims.append((f"bor[{p},{q}]", z(Bd[p, q]) == bor[p][q]))
                claims.append((f"dis[{p},{q}]", z(Dd[p, q]) == dis[p][q]))
        # tiling consequences (pi is a free positive real: only sum(a_o)=4*pi is used)
        tot = [PI > 0, z3.Sum(area) == 4 * PI]
        Rlow = [z3.RealVal(0)] + Rb[:-1]
        sums = [("vol_total", z3.Sum([z(v) for v in V]) == 4 * PI * Rb[-1] ** 3 / 3)]
        for k in range(n_t):
            sums.append((f"vol_shell[{k}]", z3.Sum([z(V[k * n_o + i]) for i in range(n_o)]) == 4 * PI * (Rb[k] ** 3 - Rlow[k] ** 3) / 3))
        for k in range(n_t - 1):
            sums.append((f"radial_faces[{k}]", z3.Sum([z(Bd[k * n_o + i, (k + 1) * n_o + i]) for i in range(n_o)]) == 4 * PI * Rb[k] ** 2))
        for k in range(n_t):
            claims.append((f"R_interleave[{k}]", z3.And(r[k] < Rb[k], Rb[k] < r[k + 1]) if k < n_t - 1 else r[k] < Rb[k]))
        res = prover.prove_all(prem, claims)
        acc.add(res)
        acc.add(prover.prove_all(prem + tot, sums))
    return acc.result(eng.stats, prover.stats)


# ------------------------------------------------------------------------------------------ replay on the real code
def numeric_violations(shape, model):
    import contextlib, io
    import scipy.sparse as rsp
    import molgri.space.fullgrid as F
    import molgri.space.translations as TR
    n_o, n_t = shape["n_o"], shape["n_t"]
    pattern = [tuple(p) for p in shape["pattern"]]
    g = lambda nm, d: fval(model, nm, d)
    area = [g(f"a{i}", 1.0 + 0.1 * i) for i in range(n_o)]
    arc, ang = {}, {}
    for (i, j) in pattern:
        arc[(i, j)] = arc[(j, i)] = g(f"arc{i}_{j}", 0.5 + 0.01 * (i + 3 * j))
        ang[(i, j)] = ang[(j, i)] = g(f"ang{i}_{j}", 0.7 + 0.02 * (i + 5 * j))
    r = [g(f"r{k}", None) for k in range(n_t)]
    if any(x is None for x in r):
        r = list(np.cumsum([1.0 + 0.37 * k for k in range(n_t)]))
    o = DirStub(n_o, pattern, area, arc, ang, rsp, lambda l: np.array(l))
    dv = float_decoy_values()
    mk = lambda l: np.array(l, dtype=float)
    with contextlib.redirect_stdout(io.StringIO()):
        exercise_position_decoys(F, TR, o, np.array(r, dtype=float), mk, dv, tag="A")
        pg = make_positiongrid(F, TR, o, np.array(r, dtype=float))
        exercise_position_decoys(F, TR, o, np.array(r, dtype=float), mk, dv, tag="B")
    with contextlib.redirect_stdout(io.StringIO()), real_code():
        A, B, D = pg.get_adjacency_of_position_grid(), pg.get_borders_of_position_grid(), pg.get_distances_of_position_grid()
        V = pg.get_all_position_volumes()
    Rb, vol, adj, bor, dis = position_spec(n_o, n_t, area, arc, ang, r, zero=0.0)
    n = n_o * n_t
    bad = []
    if not (A.shape == B.shape == D.shape == (n, n) and len(V) == n):
        return [f"shapes {A.shape} {B.shape} {D.shape} {len(V)}"]
    if not (list(A.row) == list(B.row) == list(D.row) and list(A.col) == list(B.col) == list(D.col)):
        bad.append("same_pattern_and_entry_order")
    Ad, Bd, Dd = (np.asarray(x.toarray(), dtype=float) for x in (A, B, D))
    for p in range(n):
        if not isclose(V[p], vol[p]):
            bad.append(f"vol[{p}]")
        for q in range(n):
            for nm, got, exp in (("adj", Ad, adj), ("bor", Bd, bor), ("dis", Dd, dis)):
                if not isclose(got[p, q], float(exp[p][q])):
                    bad.append(f"{nm}[{p},{q}]")
    return bad


def replay(cex):
    try:
        bad = numeric_violations(cex["shape"], cex.get("model", {}))
    except RealCodeRaised as e:
        return {"reproduced": True, "detail": f"real code raised {e}"}
    except Exception as e:  # noqa: BLE001 - the harness's own oracle failed on this model (overflow ...): not a verdict about the code
        return {"reproduced": False, "detail": f"oracle could not be evaluated on this model: {e!r}"}
    return {"reproduced": bool(bad), "detail": f"failing on the real function: {bad[:8]}"}


def finding_key(cex):
    return f"C05:{cex['obligation'].split('[')[0]}:n_o={cex['shape']['n_o']}:T={cex['shape']['n_t']}"


DEFERRED_ERRORS = []


def selftest(seed):
    from harness.geom import direction_contract
    del DEFERRED_ERRORS[:]
    n = sparse_selftest(seed, rounds=6)
    try:
        n += direction_contract()
    except Exception:  # noqa: BLE001
        import traceback
        DEFERRED_ERRORS.append("contract of the direction grid's compiled geometry broken on a small real grid (DirStub assumes it):\n" + traceback.format_exc()[-1500:])
    return n
