"""builds real FullGrid / PositionGrid / HalfRotobjVoronoi objects around contract stubs of the compiled geometry.

Used with (spmod=symx.sparse, symbolic values) by the symbolic runs and with (spmod=scipy.sparse, floats) by the
replays, so a counterexample is replayed through exactly the same object graph on the real libraries.
"""
import numpy as np

from harness.geom import DirStub


def orbits(N):
    """orbits of unordered index pairs of [G; -G] (2N points) under the antipodal map, antipodal pairs excluded"""
    n2 = 2 * N
    opp = lambda i: (i + N) % n2
    orb, order = {}, []
    for i in range(n2):
        for j in range(i + 1, n2):
            if j == opp(i):
                continue
            k = min(tuple(sorted((i, j))), tuple(sorted((opp(i), opp(j)))))
            if k not in order:
                order.append(k)
            orb[(i, j)] = orb[(j, i)] = k
    return orb, order


def gen_G(N, gseed):
    """N generic unit quaternions in the canonical half (odd seeds: one of them with a zero first coordinate)"""
    rng = np.random.default_rng(1000 + gseed)
    G = rng.normal(size=(N, 4))
    G[:, 0] = np.abs(G[:, 0]) + 0.1
    if gseed % 2 == 1 and N >= 2:
        G[1, 0] = 0.0
        G[1, 1] = abs(G[1, 1]) + 0.1
    return G / np.linalg.norm(G, axis=1)[:, None]


class FullSphereStub:
    """contract stub of RotobjVoronoi over [G; -G]: `present(orbit)` decides adjacency (may fork), `value(prop, orbit)`
    gives the positive border / distance of an adjacent orbit, `volume(i)` the cell volume (antipodally invariant)."""

    def __init__(self, N, spmod, present, value, volume, mkarr):
        self.N, self.sp, self.present, self.value, self.volume, self.mkarr = N, spmod, present, value, volume, mkarr
        self.orb, self.order = orbits(N)

    def _calculate_N_N_array(self, sel_property="adjacency", **k):
        n2 = 2 * self.N
        M = np.zeros((n2, n2), dtype=object)
        M[...] = False if sel_property == "adjacency" else 0.0
        for i in range(n2):
            for j in range(n2):
                if i == j or j == (i + self.N) % n2:
                    continue
                kk = self.orb[(i, j)]
                if self.present(kk):
                    M[i, j] = True if sel_property == "adjacency" else self.value(sel_property, kk)
        if self.sp.__name__.startswith("scipy"):
            M = M.astype(bool if sel_property == "adjacency" else float)
        return self.sp.coo_array(M)

    def get_voronoi_volumes(self, approx=False):
        return self.mkarr([self.volume(i % self.N) for i in range(2 * self.N)])


class _SV:
    def __init__(self, points):
        self.points = points


class BRot:
    """rotation grid (SphereGrid4Dim) around a real HalfRotobjVoronoi (n_b>=2) or the real MikroVoronoi (n_b=1)"""

    def __init__(self, n_b, G, voronoi):
        self.n_b, self.G, self.vor = n_b, G, voronoi

    def get_N(self):
        return self.n_b

    def __len__(self):
        return self.n_b

    def get_spherical_voronoi(self):
        return self.vor

    def get_grid_as_array(self, only_upper=True):
        return self.G.copy() if only_upper else np.vstack([self.G, -self.G])

    def get_name(self, with_dim=False):
        return f"stubQ_{self.n_b}"


class SVStub:
    """stands in for scipy.spatial.SphericalVoronoi (Qhull) while the REAL Voronoi constructors of molgri run: generic vertices on the
    sphere and three of them per region (what the constructors derive from it -- reduced vertices, region re-indexing -- is exercised,
    the geometry itself is not what any harness reads: the matrices and volumes come from the contract stubs)"""

    def __init__(self, points, radius=1, center=None, threshold=1e-06):
        self.points = np.asarray(points, dtype=float)
        n, d = self.points.shape
        rng = np.random.default_rng(10 * n + d)
        v = rng.normal(size=(2 * n, d))
        self.vertices = v / np.linalg.norm(v, axis=1)[:, None] * float(radius)
        self.regions = [[i, (i + 1) % (2 * n), (i + n) % (2 * n)] for i in range(n)]
        self.radius = radius
        self.center = np.zeros(d)

    def sort_vertices_of_regions(self):
        pass

    def calculate_areas(self):
        return np.full(len(self.points), 4 * np.pi / len(self.points))


BYPASSED = []   # constructions that had to fall back to object.__new__ (an AttributeError on such an object is a harness artefact)


def make_half_voronoi(Vm, N, G, full_stub):
    """the real HalfRotobjVoronoi over [G; -G], built by its REAL __init__ chain (HalfRotobjVoronoi -> RotobjVoronoi -> AbstractVoronoi)
    with Qhull's SphericalVoronoi replaced by `SVStub`; its full-sphere collaborator is then replaced by the contract stub"""
    from harness.common import bound
    from symx.core import noprint
    full = np.vstack([np.asarray(G, dtype=float), -np.asarray(G, dtype=float)])
    try:
        with bound(Vm, SphericalVoronoi=SVStub, np=np, print=noprint):
            h = Vm.HalfRotobjVoronoi(full, using_detailed_grid=False)
    except Exception as e:  # noqa: BLE001 - the constructor needs more of Qhull than the stand-in offers: fall back, and say so
        BYPASSED.append(f"HalfRotobjVoronoi.__init__: {type(e).__name__}: {e}")
        h = object.__new__(Vm.HalfRotobjVoronoi)
        h.spherical_voronoi = _SV(full)
        h.my_array = full
    h.full_voronoi = full_stub
    return h


def _t_text(n_t):
    return "[" + ", ".join(str(round(0.1 * (k + 1) + 0.03 * k * k, 3)) for k in range(n_t)) + "]"


def _radii_parser(TR, radii_arr):
    """the real TranslationParser (its real __init__ parses a placeholder text) whose radii are `radii_arr` from the moment the
    constructors of PositionGrid / FullGrid get to see it -- whatever those constructors derive from the radii eagerly is derived from the
    values of the run, not from the placeholder's"""
    class RadiiParser(TR.TranslationParser):
        def __init__(self, user_input):
            super().__init__(user_input)
            self.trans_grid = radii_arr
    RadiiParser.__name__ = RadiiParser.__qualname__ = "TranslationParser"
    return RadiiParser


def make_positiongrid(F, TR, dirstub, radii_arr, cartesian=False):
    """a real PositionGrid built by its REAL __init__ (so that whatever it initialises exists), with the direction-grid factory
    replaced by one that hands out the stub and the radii replaced by `radii_arr` after the (real) parse of a placeholder text"""
    from harness.common import bound

    class F3:
        @staticmethod
        def create(alg_name=None, N=None, **k):
            return dirstub
    with bound(F, SphereGrid3DFactory=F3, TranslationParser=_radii_parser(TR, radii_arr)):
        pg = F.PositionGrid(o_grid_name=str(dirstub.get_N()), t_grid_name=_t_text(len(radii_arr)), position_grid_cartesian=cartesian)
    return pg


def make_fullgrid(F, TR, Vm, n_b, dirstub, radii_arr, factor, G=None, full_stub=None, cartesian=False):
    """a real FullGrid built by its REAL __init__ (FullGrid.__init__ -> PositionGrid.__init__, name and translation parsers run);
    only the two sphere-grid factories are replaced: they hand out the direction stub and the rotation stub object"""
    from harness.common import bound
    if n_b == 1:
        vor = Vm.MikroVoronoi(dimensions=4, N_points=1)
        G = np.array([[0.0, 0.0, 0.0, 1.0]])
    else:
        vor = make_half_voronoi(Vm, n_b, G, full_stub) if full_stub is not None else None
    brot = BRot(n_b, G, vor)

    class F4:
        @staticmethod
        def create(alg_name=None, N=None, **k):
            return brot

    class F3:
        @staticmethod
        def create(alg_name=None, N=None, **k):
            return dirstub
    with bound(F, SphereGrid4DFactory=F4, SphereGrid3DFactory=F3, TranslationParser=_radii_parser(TR, radii_arr)):
        fg = F.FullGrid(str(n_b), str(dirstub.get_N()), _t_text(len(radii_arr)), factor=factor, position_grid_cartesian=cartesian)
    return fg


# ------------------------------------------------------------------------------------------------ decoy objects (cross-object state)
# Objects that live in the same process as the object under test and must not influence it.  Every decoy is something that can
# really coexist with the object under test:
#   * "collision twin": the same direction grid and a radial grid with OTHER radii whose shortened (32-bit) md5 identifier collides with
#     the identifier of the grid under test -- the package's grid names are lossy keys, so two different grids may share one name;
#   * "Cartesian twin": the same names with position_grid_cartesian=True (the names do not encode the mode);
#   * a grid with another metric factor f.
# They are built by the same real constructors, asked for everything, and then thrown away.  `dv(name)` hands out fresh positive
# quantities (symbolic in the symbolic run, floats in the replay).
POS_GETTERS = ("get_position_grid_as_array", "get_all_position_volumes", "get_adjacency_of_position_grid", "get_borders_of_position_grid",
               "get_distances_of_position_grid", "get_radii")


def decoy_value_factory(eng):
    """dv(name) for symbolic runs: a z3 Real declared positive (global assumption from its creation on)"""
    import z3
    from symx.core import SR, Engine
    pool = {}

    def dv(name):
        if name not in pool:
            pool[name] = z3.Real("decoy_" + name)
            eng.declare_sign(pool[name], "+")
            eng.assume_global(pool[name] > 0)
            if Engine.cur is not None:
                Engine.cur.pc.append(pool[name] > 0)
        return SR(pool[name])
    return dv


def float_decoy_values():
    pool = {}

    def dv(name):
        if name not in pool:
            pool[name] = 0.317 + 0.0731 * len(pool) + 0.011 * (len(name) % 7)
        return pool[name]
    return dv


def _ask(obj, names, extra=()):
    for g in names:
        try:
            getattr(obj, g)()
        except Exception:  # noqa: BLE001 - a decoy's own failure is not the subject (PathAbort / Unsupported are BaseException and pass)
            pass
    for fn in extra:
        try:
            fn()
        except Exception:  # noqa: BLE001
            pass


def _stub_cartesian_getters(pg, mkarr, dv, tag):
    """Cartesian cell geometry is Qhull: the twin's three Cartesian getters answer with fresh positive quantities on the adjacency pattern"""
    def vols():
        return mkarr([dv(f"{tag}cv{i}") for i in range(len(pg))])

    def mat(kind):
        def f():
            M = pg.get_adjacency_of_position_grid()
            if len(M.row):
                M.data = mkarr([dv(f"{tag}{kind}%d_%d" % tuple(sorted((int(i), int(j))))) for i, j in zip(M.row, M.col)])
            return M
        return f
    pg.get_cartesian_volumes = vols
    pg.get_cartesian_surfaces = mat("cs")
    pg.get_cartesian_distances = mat("cd")


class _NoQhull:
    def __init__(self, points, *a, **k):
        self.points = points
        self.point_region, self.regions, self.vertices = [], [], []


def decoy_radii(n_t, mkarr, dv, tag):
    acc, out = None, []
    for k in range(n_t):
        acc = dv(f"{tag}r{k}") if acc is None else acc + dv(f"{tag}r{k}")
        out.append(acc)
    return mkarr(out)


def _try(fn):
    """a decoy that cannot be built (e.g. its constructor's own assertion on the radii of this path) is simply absent"""
    try:
        return fn()
    except Exception:  # noqa: BLE001 (PathAbort / Unsupported are BaseException and pass)
        return None


def exercise_position_decoys(F, TR, dirstub, radii_arr, mkarr, dv, tag="A"):
    """a collision twin (other radii, same name) and a Cartesian twin (same names, same radii) of a PositionGrid; both asked for everything"""
    from harness.common import bound
    n_t = len(radii_arr)
    props = ("adjacency", "border_len", "center_distances")
    d1 = _try(lambda: make_positiongrid(F, TR, dirstub, decoy_radii(n_t, mkarr, dv, tag)))
    if d1 is not None:
        _ask(d1, POS_GETTERS, [lambda p=p: d1._get_N_N_position_array(sel_property=p) for p in props])

    def twin():
        with bound(F, Voronoi=_NoQhull):
            return make_positiongrid(F, TR, dirstub, radii_arr.copy(), cartesian=True)
    d2 = _try(twin)
    if d2 is not None:
        _stub_cartesian_getters(d2, mkarr, dv, tag)
        _ask(d2, POS_GETTERS, [lambda p=p: d2._get_N_N_position_array(sel_property=p) for p in props])
    return d1, d2


FULL_GETTERS = ("get_full_grid_as_array", "get_total_volumes", "get_full_adjacency", "get_full_borders", "get_full_distances", "get_full_prefactors")


def exercise_full_decoys(F, TR, Vm, n_b, dirstub, radii_arr, factor, mkarr, dv, G=None, full_stub=None, tag="A", FULL_GETTERS=FULL_GETTERS, POS_GETTERS=POS_GETTERS):
    """FullGrid decoys: another factor + colliding radial grid; a Cartesian twin with the SAME names and factor"""
    from harness.common import bound
    n_t = len(radii_arr)
    # construction order: the decoy that differs most (other factor, other radii under the same name) is constructed LAST (state written by
    # constructors) and asked FIRST (state written by getters, e.g. caches keyed by the lossy name)
    def twin():
        with bound(F, Voronoi=_NoQhull):
            return make_fullgrid(F, TR, Vm, n_b, dirstub, radii_arr.copy(), factor, G, full_stub, cartesian=True)
    d2 = _try(twin)
    if d2 is not None:
        _stub_cartesian_getters(d2.position_grid, mkarr, dv, tag)
    d1 = _try(lambda: make_fullgrid(F, TR, Vm, n_b, dirstub, decoy_radii(n_t, mkarr, dv, tag), dv(f"{tag}f"), G, full_stub))
    for d in (d1, d2):
        if d is not None:
            _ask(d, FULL_GETTERS)
            _ask(d.position_grid, POS_GETTERS)
    return d1, d2
