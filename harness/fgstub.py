"""builds real FullGrid / PositionGrid / HalfRotobjVoronoi objects around contract stubs of the compiled geometry.

Used with (spmod=symx.sparse, symbolic values) by the symbolic runs and with (spmod=scipy.sparse, floats) by the
replays, so a counterexample is replayed through exactly the same object graph on the real libraries.
"""
import numpy as np

from harness.geom import DirStub


def orbits(N):
    """orbits of unordered index pairs of [G; -G] (2N points) under the antipodal map, antipodal pairs excluded"""
    n2 = 2 * N
    opp = lambda i: (i + N) % n2
    orb, order = {}, []
    for i in range(n2):
        for j in range(i + 1, n2):
            if j == opp(i):
                continue
            k = min(tuple(sorted((i, j))), tuple(sorted((opp(i), opp(j)))))
            if k not in order:
                order.append(k)
            orb[(i, j)] = orb[(j, i)] = k
    return orb, order


def gen_G(N, gseed):
    """N generic unit quaternions in the canonical half (odd seeds: one of them with a zero first coordinate)"""
    rng = np.random.default_rng(1000 + gseed)
    G = rng.normal(size=(N, 4))
    G[:, 0] = np.abs(G[:, 0]) + 0.1
    if gseed % 2 == 1 and N >= 2:
        G[1, 0] = 0.0
        G[1, 1] = abs(G[1, 1]) + 0.1
    return G / np.linalg.norm(G, axis=1)[:, None]


class FullSphereStub:
    """contract stub of RotobjVoronoi over [G; -G]: `present(orbit)` decides adjacency (may fork), `value(prop, orbit)`
    gives the positive border / distance of an adjacent orbit, `volume(i)` the cell volume (antipodally invariant)."""

    def __init__(self, N, spmod, present, value, volume, mkarr):
        self.N, self.sp, self.present, self.value, self.volume, self.mkarr = N, spmod, present, value, volume, mkarr
        self.orb, self.order = orbits(N)

    def _calculate_N_N_array(self, sel_property="adjacency", **k):
        n2 = 2 * self.N
        M = np.zeros((n2, n2), dtype=object)
        M[...] = False if sel_property == "adjacency" else 0.0
        for i in range(n2):
            for j in range(n2):
                if i == j or j == (i + self.N) % n2:
                    continue
                kk = self.orb[(i, j)]
                if self.present(kk):
                    M[i, j] = True if sel_property == "adjacency" else self.value(sel_property, kk)
        if self.sp.__name__.startswith("scipy"):
            M = M.astype(bool if sel_property == "adjacency" else float)
        return self.sp.coo_array(M)

    def get_voronoi_volumes(self, approx=False):
        return self.mkarr([self.volume(i % self.N) for i in range(2 * self.N)])


class _SV:
    def __init__(self, points):
        self.points = points


class BRot:
    """rotation grid (SphereGrid4Dim) around a real HalfRotobjVoronoi (n_b>=2) or the real MikroVoronoi (n_b=1)"""

    def __init__(self, n_b, G, voronoi):
        self.n_b, self.G, self.vor = n_b, G, voronoi

    def get_N(self):
        return self.n_b

    def __len__(self):
        return self.n_b

    def get_spherical_voronoi(self):
        return self.vor

    def get_grid_as_array(self, only_upper=True):
        return self.G.copy() if only_upper else np.vstack([self.G, -self.G])

    def get_name(self, with_dim=False):
        return f"stubQ_{self.n_b}"


def make_half_voronoi(Vm, N, G, full_stub):
    h = object.__new__(Vm.HalfRotobjVoronoi)
    full = np.vstack([G, -G])
    h.full_voronoi = full_stub
    h.spherical_voronoi = _SV(full)
    h.my_array = full
    return h


def _t_text(n_t):
    return "[" + ", ".join(str(round(0.1 * (k + 1) + 0.03 * k * k, 3)) for k in range(n_t)) + "]"


def make_positiongrid(F, TR, dirstub, radii_arr, cartesian=False):
    """a real PositionGrid built by its REAL __init__ (so that whatever it initialises exists), with the direction-grid factory
    replaced by one that hands out the stub and the radii replaced by `radii_arr` after the (real) parse of a placeholder text"""
    from harness.common import bound

    class F3:
        @staticmethod
        def create(alg_name=None, N=None, **k):
            return dirstub
    with bound(F, SphereGrid3DFactory=F3):
        pg = F.PositionGrid(o_grid_name=str(dirstub.get_N()), t_grid_name=_t_text(len(radii_arr)), position_grid_cartesian=cartesian)
    pg.t_grid.trans_grid = radii_arr
    return pg


def make_fullgrid(F, TR, Vm, n_b, dirstub, radii_arr, factor, G=None, full_stub=None, cartesian=False):
    """a real FullGrid built by its REAL __init__ (FullGrid.__init__ -> PositionGrid.__init__, name and translation parsers run);
    only the two sphere-grid factories are replaced: they hand out the direction stub and the rotation stub object"""
    from harness.common import bound
    if n_b == 1:
        vor = Vm.MikroVoronoi(dimensions=4, N_points=1)
        G = np.array([[0.0, 0.0, 0.0, 1.0]])
    else:
        vor = make_half_voronoi(Vm, n_b, G, full_stub) if full_stub is not None else None
    brot = BRot(n_b, G, vor)

    class F4:
        @staticmethod
        def create(alg_name=None, N=None, **k):
            return brot

    class F3:
        @staticmethod
        def create(alg_name=None, N=None, **k):
            return dirstub
    with bound(F, SphereGrid4DFactory=F4, SphereGrid3DFactory=F3):
        fg = F.FullGrid(str(n_b), str(dirstub.get_N()), _t_text(len(radii_arr)), factor=factor, position_grid_cartesian=cartesian)
    fg.position_grid.t_grid.trans_grid = radii_arr
    return fg
