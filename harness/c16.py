"""C16 -- radial grids parse to sorted Angstrom radii with interleaved shell boundaries.

Real `TranslationParser.__init__`, `_read_within_brackets`, `get_trans_grid`, `get_increments`, `get_between_radii`
run on text templates whose NUMBERS are symbolic: the template string is concrete (so the substring dispatch and the
bracket splitting run for real), `literal_eval` is a stub that returns the numbers written in the text as symbolic
reals, `hashlib.md5` records its argument.
"""
import ast
import itertools
import numbers

import numpy as np
import z3

from symx.core import Engine, SR, SB, noprint, Unsupported
from symx.arr import sarr, SArr
from symx.npproxy import NPProxy
from symx.prove import Prover
from symx.runner import Acc
from harness.common import bound, z, fval, isclose

numbers.Number.register(SR)

PROPERTY = "C16"
FUNCTIONS = ["molgri.space.translations.TranslationParser.__init__", "TranslationParser._read_within_brackets", "TranslationParser.get_trans_grid",
             "TranslationParser.get_increments", "TranslationParser.get_N_trans", "TranslationParser.sum_increments_from_first_radius",
             "translations.get_increments", "translations.get_between_radii"]
STUBS = ["ast.literal_eval -> returns the numbers written in the (concrete) template as symbolic reals; structure (list/tuple/number) as written",
         "np.linspace / np.arange -> closed forms start+k*(stop-start)/(num-1), start+k*step with the arange length decided by forking",
         "np.sort -> sorting network; hashlib.md5 -> records its argument"]
ASSUMPTIONS = ["Python's own literal parsing and whitespace handling (the stub's contract)", "float modelled by the reals",
               "ascending order is claimed for lists/tuples (any order) and for linspace/range with start<stop, step>0"]
OUTSIDE = ["lists longer than the bound", "the md5 bytes themselves"]

TEMPLATES_Q = ["v0", "[v0]", "[v0, v1]", "[v0, v1, v2]", "[v0, v1, v2, v3]", "(v0, v1)", "(v0, v1, v2)", "(v0,)",
               "linspace(v0, v1, 1)", "linspace(v0, v1, 2)", "linspace(v0, v1, 3)", "linspace(v0, v1, 5)", "linspace(v0, v1)",
               "range(v0, v1, v2)", "arange(v0, v1, v2)", "range(v0, v1)", "range(v0)",
               # the same forms as users write them: surrounding and inner whitespace
               " linspace(v0, v1, 3)", "linspace(v0, v1, 3) ", "linspace (v0, v1, 3)", "range( v0 , v1 , v2 )\t", "arange(v0, v1, v2)\n", " [v0, v1] ", "( v0, v1 ) "]
TEMPLATES_T = TEMPLATES_Q + ["[v0, v1, v2, v3, v4]", "(v0, v1, v2, v3)", "linspace(v0, v1, 4)", "linspace(v0, v1, 6)", "np.linspace(v0, v1, 3)", "np.arange(v0, v1, v2)"]
MAXLEN = 6


def bounds(tier):
    return {"templates": TEMPLATES_Q if tier == "quick" else TEMPLATES_T, "arange_length": f"<= {MAXLEN} (longer: outside)", "numbers": "symbolic reals"}


def shapes(tier, seed):
    return [{"template": t} for t in (TEMPLATES_Q if tier == "quick" else TEMPLATES_T)]


def nvars(template):
    return 1 + max(int(x) for x in __import__("re").findall(r"v(\d+)", template))


def sym_literal_eval(vars_):
    def ev(node):
        if isinstance(node, ast.Expression):
            return ev(node.body)
        if isinstance(node, ast.Name) and node.id in vars_:
            return SR(vars_[node.id])
        if isinstance(node, ast.Constant) and isinstance(node.value, (int, float)):
            return node.value
        if isinstance(node, ast.Tuple):
            return tuple(ev(e) for e in node.elts)
        if isinstance(node, ast.List):
            return [ev(e) for e in node.elts]
        if isinstance(node, ast.UnaryOp) and isinstance(node.op, ast.USub):
            return -ev(node.operand)
        raise ValueError(f"malformed node or string: {ast.dump(node)[:60]}")

    def f(s):
        if not isinstance(s, str):
            raise Unsupported("literal_eval of a non-string")
        return ev(ast.parse(s.strip(), mode="eval"))
    return f


class ProxyT(NPProxy):
    def linspace(self, start, stop=None, num=50, endpoint=True, dtype=None, **k):
        if stop is None:
            raise TypeError("linspace() missing 1 required positional argument: 'stop'")
        if isinstance(num, SR):
            raise Unsupported("symbolic num in linspace")
        num = int(num)
        if num < 0:
            raise ValueError("Number of samples, %s, must be non-negative." % num)
        if num == 1:
            return sarr([start * 1])
        return sarr([start + (stop - start) * k_ / (num - 1) for k_ in range(num)]) if num else np.zeros(0, dtype=object).view(SArr)

    def arange(self, *a, dtype=None, **k):
        if not any(isinstance(x, SR) for x in a):
            return np.arange(*a, dtype=dtype, **k)
        if len(a) == 1:
            start, stop, step = 0, a[0], 1
        elif len(a) == 2:
            start, stop, step = a[0], a[1], 1
        else:
            start, stop, step = a[:3]
        span = stop - start
        if not bool(step > 0):
            raise Unsupported("arange with non-positive step is outside the harness")
        if bool(span <= 0):
            return np.zeros(0, dtype=object).view(SArr)
        for L in range(1, MAXLEN + 1):
            if bool(span <= step * L):     # ceil(span/step) == L
                return sarr([start + step * k_ for k_ in range(L)])
        from symx.core import PathAbort
        raise PathAbort()  # longer than the bound: outside the claim


class sym_float(float):
    """stand-in for builtins.float in the target module: identity on symbolic values, still usable as dtype=float"""
    _symfloat = True

    def __new__(cls, x=0.0):
        return x if isinstance(x, SR) else float(x)


class Md5Rec:
    last = None

    def __init__(self, arg):
        Md5Rec.last = arg

    def hexdigest(self):
        return "0123456789abcdef0123456789abcdef"


class HashStub:
    md5 = Md5Rec


def count_le(vals, t):
    return z3.Sum([z3.If(v <= t, 1, 0) for v in vals])


def run_shape(shape):
    import molgri.space.translations as TR
    tpl = shape["template"]
    n = nvars(tpl)
    V = [z3.Real(f"v{i}") for i in range(n)]
    eng = Engine()
    prover = Prover(timeout_ms=20000, budget_s=600)
    acc = Acc(shape)
    proxy = ProxyT()
    lev = sym_literal_eval({f"v{i}": V[i] for i in range(n)})
    kind = "linspace" if "linspace" in tpl else "range" if "range" in tpl else "list"
    if kind == "range":
        eng.assume_global(*( [V[2] > 0] if n >= 3 else []))

    def body():
        Md5Rec.last = None
        with bound(TR, literal_eval=lev, np=proxy, hashlib=HashStub, print=noprint, float=sym_float):
            # another radial grid of the same process (other numbers, another syntax) is parsed and asked for everything first
            try:
                dec = TR.TranslationParser("linspace(0.25, 0.75, 3)" if kind == "list" else "[0.25, 0.75, 0.5]")
                dec.get_increments(); TR.get_between_radii(dec.get_trans_grid()); TR.get_between_radii(dec.get_trans_grid(), include_zero=True)
            except AssertionError:
                pass
            Md5Rec.last = None
            tp = TR.TranslationParser(tpl)
            grid = tp.get_trans_grid()
            md5arg = Md5Rec.last
            same = md5arg is tp.trans_grid
            if not same and isinstance(md5arg, np.ndarray) and md5arg.shape == np.shape(grid):
                same = all(a is b for a, b in zip(md5arg.reshape(-1), np.asarray(grid, dtype=object).reshape(-1)))
            out = {"grid": grid, "md5_is_grid": same, "N": tp.get_N_trans()}
            if len(grid) == 0:
                return out  # an empty grid (e.g. range(0)) has no radii: increments / boundaries are outside the statement
            try:
                out["inc"] = tp.get_increments()
                out["between"] = TR.get_between_radii(grid)
                out["between0"] = TR.get_between_radii(grid, include_zero=True)
                out["sum_inc"] = tp.sum_increments_from_first_radius()
            except AssertionError as e:
                out["inc_error"] = e
        return out

    for path in eng.explore(body):
        acc.begin(prover, path)
        if acc.reachable is not True:
            acc.reach(prover.satisfiable(path.premises))
        prem = path.premises
        if path.kind == "exc":
            e = path.value
            if isinstance(e, (AssertionError, ValueError)) and kind in ("list", "linspace", "range"):
                # rejection is allowed exactly when some intended distance is negative
                if kind == "list":
                    neg = z3.Or([v < 0 for v in V])
                elif kind == "linspace":
                    neg = z3.Or(V[0] < 0, V[1] < 0)
                else:
                    start = V[0] if n >= 2 else z3.RealVal(0)
                    neg = start < 0
                acc.add([prover.prove("rejected_only_if_negative", prem, neg)], make_cex=lambda r: {"what": "rejected"})
            else:
                acc.structural("no_unexpected_exception", False, detail=repr(e) + (path.tb or "")[-500:], cex={"kind": "exception", "exc": type(e).__name__, "model": _model(path)})
            continue
        o = path.value
        g = [z(x) for x in o["grid"]]
        T = len(g)
        acc.structural("md5_argument_is_the_returned_array", bool(o["md5_is_grid"]), detail="grid identifier computed from something else than the distances")
        acc.structural("N_trans", o["N"] == T, detail=o["N"])
        claims = [(f"nonneg[{k}]", g[k] >= 0) for k in range(T)]
        if kind == "list":
            acc.structural("length", T == n, detail=T)
            claims += [(f"ascending[{k}]", g[k] <= g[k + 1]) for k in range(T - 1)]
            claims += [(f"permutation_of_10x[{i}]", count_le(g, 10 * V[i]) == count_le([10 * v for v in V], 10 * V[i])) for i in range(n)]
        elif kind == "linspace":
            num = int(tpl.split(",")[2].strip(" )")) if tpl.count(",") == 2 else 50
            acc.structural("length", T == num, detail=T)
            for k in range(T):
                exp = 10 * V[0] if num == 1 else 10 * (V[0] + (V[1] - V[0]) * k / (num - 1))
                claims.append((f"value[{k}]", g[k] == exp))
            claims += [(f"ascending[{k}]", z3.Implies(V[0] < V[1], g[k] < g[k + 1])) for k in range(T - 1)]
        else:
            start = V[0] if n >= 2 else z3.RealVal(0)
            stop = V[1] if n >= 2 else V[0]
            step = V[2] if n >= 3 else z3.RealVal(1)
            for k in range(T):
                claims.append((f"value[{k}]", g[k] == 10 * (start + k * step)))
                claims.append((f"below_stop[{k}]", start + k * step < stop))
            claims.append(("next_would_reach_stop", start + T * step >= stop))
            claims += [(f"ascending[{k}]", g[k] < g[k + 1]) for k in range(T - 1)]
        strictly = z3.And([g[0] > 0] + [g[k] < g[k + 1] for k in range(T - 1)]) if T else z3.BoolVal(False)
        if "inc_error" in o:
            claims.append(("increments_rejected_only_if_not_strictly_increasing_positive", z3.Not(strictly)))
        elif T and "inc" in o:
            inc = [z(x) for x in o["inc"]]
            R = [z(x) for x in o["between"]]
            R0 = [z(x) for x in o["between0"]]
            acc.structural("lengths", len(inc) == T and len(R) == T and len(R0) == T + 1, detail=(len(inc), len(R), len(R0)))
            if len(inc) == T and len(R) == T and len(R0) == T + 1:
                claims.append(("grid_strictly_increasing_positive", strictly))
                claims.append(("increment[0]", inc[0] == g[0]))
                claims += [(f"increment[{k}]", z3.And(inc[k] == g[k] - g[k - 1], inc[k] > 0)) for k in range(1, T)]
                claims.append(("sum_increments", z(o["sum_inc"]) == g[-1] - g[0]))
                if T == 1:
                    claims.append(("single_radius_boundary", R[0] == 2 * g[0]))
                else:
                    claims += [(f"midpoint[{k}]", R[k] == (g[k] + g[k + 1]) / 2) for k in range(T - 1)]
                    claims.append(("last_boundary", R[T - 1] == g[T - 1] + (g[T - 1] - g[T - 2]) / 2))
                    claims += [(f"interleaved[{k}]", z3.And(g[k] < R[k], R[k] < g[k + 1])) for k in range(T - 1)]
                claims.append(("last_above", g[T - 1] < R[T - 1]))
                claims.append(("include_zero[0]", R0[0] == 0))
                claims += [(f"include_zero[{k + 1}]", R0[k + 1] == R[k]) for k in range(T)]
        acc.add(prover.prove_all(prem, claims))
    return acc.result(eng.stats, prover.stats)


def _model(path):
    s = z3.Solver()
    s.set("timeout", 3000)
    s.add(*path.premises)
    if s.check() == z3.sat:
        from symx.prove import model_to_dict
        return {k: (str(v) if not isinstance(v, bool) else v) for k, v in model_to_dict(s.model()).items()}
    return {}


# ------------------------------------------------------------------------------------------ replay on the real code
def replay(cex):
    import contextlib, io
    import molgri.space.translations as TR
    tpl = cex["shape"]["template"]
    n = nvars(tpl)
    model = cex.get("model", {}) or {}
    defaults = [0.3, 0.1, 0.25, 0.7, 0.5]
    vals = [fval(model, f"v{i}", defaults[i % 5]) for i in range(n)]
    kind = "linspace" if "linspace" in tpl else "range" if "range" in tpl else "list"
    if kind == "range" and n >= 3 and vals[2] <= 0:
        vals[2] = 0.25
    text = tpl
    for i in reversed(range(n)):
        text = text.replace(f"v{i}", repr(float(vals[i])))
    bad = []
    try:
        with contextlib.redirect_stdout(io.StringIO()):
            tp = TR.TranslationParser(text)
            grid = np.asarray(tp.get_trans_grid(), dtype=float)
    except (AssertionError, ValueError) as e:
        neg = (min(vals) < 0) if kind == "list" else (vals[0] < 0 or vals[1] < 0) if kind == "linspace" else ((vals[0] if n >= 2 else 0.0) < 0)
        return {"reproduced": not neg, "detail": f"TranslationParser({text!r}) rejected with {e!r}; a negative distance present: {neg}"}
    except Exception as e:  # noqa: BLE001
        return {"reproduced": True, "detail": f"TranslationParser({text!r}) raised {e!r}"}
    if kind == "list":
        exp = np.sort(np.array(vals, dtype=float)) * 10
    elif kind == "linspace":
        num = int(tpl.split(",")[2].strip(" )")) if tpl.count(",") == 2 else 50
        exp = np.array([vals[0] if num == 1 else vals[0] + (vals[1] - vals[0]) * k / (num - 1) for k in range(num)]) * 10
    else:
        start, stop, step = (vals[0] if n >= 2 else 0.0), (vals[1] if n >= 2 else vals[0]), (vals[2] if n >= 3 else 1.0)
        L = 0
        while start + L * step < stop - 1e-12 and L < 1000:
            L += 1
        exp = np.array([start + k * step for k in range(L)]) * 10
    if len(grid) != len(exp) or not np.allclose(grid, exp, rtol=1e-9, atol=1e-12):
        bad.append(f"grid {grid.tolist()} expected {exp.tolist()}")
    if tp.get_N_trans() != len(grid):
        bad.append("get_N_trans")
    if len(grid) and grid.min() < 0:
        bad.append(f"negative distance accepted: {grid.tolist()}")
    # the identifier must be a function of the distances alone: the same array written as a plain list gets the same identifier
    if len(grid):
        with contextlib.redirect_stdout(io.StringIO()):
            try:
                alt = TR.TranslationParser("[" + ", ".join(repr(float(x) / 10) for x in grid[::-1]) + "]")
                if np.array_equal(np.asarray(alt.get_trans_grid(), dtype=float), grid) and alt.grid_hash != tp.grid_hash:
                    bad.append("grid identifier differs for the same distances written as a list")
            except AssertionError:
                pass
    if not bad and len(grid) and grid[0] > 0 and np.all(np.diff(grid) > 0):
        inc = np.asarray(tp.get_increments(), dtype=float)
        R = np.asarray(TR.get_between_radii(grid), dtype=float)
        R0 = np.asarray(TR.get_between_radii(grid, include_zero=True), dtype=float)
        einc = np.concatenate([[grid[0]], np.diff(grid)])
        eR = np.array([2 * grid[0]]) if len(grid) == 1 else np.concatenate([(grid[:-1] + grid[1:]) / 2, [grid[-1] + (grid[-1] - grid[-2]) / 2]])
        if not np.allclose(inc, einc):
            bad.append(f"increments {inc.tolist()} expected {einc.tolist()}")
        if not np.allclose(R, eR):
            bad.append(f"between radii {R.tolist()} expected {eR.tolist()}")
        if not (len(R0) == len(R) + 1 and R0[0] == 0 and np.allclose(R0[1:], eR)):
            bad.append(f"between radii with zero {R0.tolist()}")
        if not isclose(tp.sum_increments_from_first_radius(), grid[-1] - grid[0]):
            bad.append("sum_increments")
    return {"reproduced": bool(bad), "detail": f"TranslationParser({text!r}): {bad}"}


def finding_key(cex):
    tpl = cex["shape"]["template"]
    kind = "linspace" if "linspace" in tpl else "range" if "range" in tpl else "list"
    return f"C16:{kind}:{cex['obligation'].split('[')[0]}"


def selftest(seed):
    # the linspace / arange closed forms of the proxy against numpy on concrete numbers
    n = 0
    rng = np.random.default_rng(seed)
    for _ in range(10):
        a, b = sorted(rng.uniform(0, 3, size=2))
        k = int(rng.integers(1, 7))
        assert np.allclose(np.linspace(a, b, k), [a if k == 1 else a + (b - a) * i / (k - 1) for i in range(k)]); n += 1
        st = float(rng.uniform(0.1, 0.9))
        ar = np.arange(a, b, st)
        L = 0
        while a + L * st < b:
            L += 1
        assert len(ar) == L and np.allclose(ar, [a + i * st for i in range(L)]); n += 1
    return n
