"""C02 -- full-grid matrices are the symmetric product of position and rotation geometry.

One symbolic run composes the real code end to end above the compiled geometry:
  direction stub -> real PositionGrid assembly (C05)  \
  full-sphere stub -> real antipode fold (C04)          > real FullGrid._get_N_N / get_full_* / get_total_volumes
and compares every entry of the three n x n matrices and every volume with closed forms written from the statement.
"""
import itertools

import numpy as np
import z3

from symx.core import Engine, SR, SB, noprint
from symx.arr import sarr
from symx import sparse as sp
from symx.npproxy import NPProxy
from symx.prove import Prover
from symx.runner import Acc
from symx.selftest import sparse_selftest
from harness.common import real_code, RealCodeRaised, bound, z, fval, sym_patterns, isclose
from harness.geom import DirStub, position_spec
from harness import fgstub
from harness.common import bypass_guard
from harness.fgstub import FullSphereStub, make_fullgrid, gen_G, orbits, exercise_full_decoys, decoy_value_factory, float_decoy_values

PROPERTY = "C02"
FUNCTIONS = ["molgri.space.fullgrid.FullGrid.get_full_prefactors (as a step of a history)", "molgri.space.fullgrid.FullGrid._get_N_N", "FullGrid.get_full_adjacency", "FullGrid.get_full_borders", "FullGrid.get_full_distances",
             "FullGrid.get_total_volumes", "FullGrid.get_full_grid_as_array", "FullGrid.__getattr__", "FullGrid.__len__",
             "PositionGrid._get_N_N_position_array", "PositionGrid.get_all_position_volumes", "PositionGrid.get_position_grid_as_array",
             "fullgrid._t_and_o_2_positions", "translations.get_between_radii", "translations.get_increments",
             "voronoi.HalfRotobjVoronoi._calculate_N_N_array", "HalfRotobjVoronoi.get_voronoi_volumes", "HalfRotobjVoronoi._get_upper_indices",
             "voronoi.MikroVoronoi.get_voronoi_volumes (n_b=1)"]
STUBS = ["direction grid (Qhull SphericalVoronoi) -> DirStub: arbitrary positive areas/arcs/angles on a symmetric pattern",
         "full-sphere rotation Voronoi (Qhull + SVD) -> arbitrary antipodally invariant positive matrices, symbolic pattern; positive volumes",
         "scipy.sparse coo_array/diags/bmat -> exact-order models; np constructors -> object arrays"]
ASSUMPTIONS = ["default (spherical-shell) position mode; the Cartesian getters are Qhull (C06, not applicable)", "float modelled by the reals",
               "contract of the full-sphere matrices as in C04", "n_b in {2,3} stand for n_b>=4: with Qhull stubbed only the count differs"]
OUTSIDE = ["the geometry itself", "sizes beyond the bound", "Cartesian position mode"]


FUNCTIONS += ["molgri.space.fullgrid.PositionGrid.get_cartesian_surfaces", "PositionGrid._get_coordinates_of_border_polygons", "PositionGrid.get_borders_of_position_grid (Cartesian mode)"]
STUBS += ["`cart_surfaces` shapes: the grid (directions, radii, scipy.spatial.Voronoi) is a concrete run of the real constructors; "
          "utils.get_polygon_area(order_points(polygon)) -> a fresh positive number per distinct vertex set (vertex ordering + shoelace are out of reach, see C06)"]

def bounds(tier):
    if tier == "quick":
        return {"n_b": [1, 2, 3], "n_o": [1, 2, 3], "n_t": [1, 2, 3], "direction_patterns": "all symmetric patterns", "rotation_patterns": "all (symbolic, by forking)",
                "cells": "<= 18 (n_b=3 only with n_o*n_t<=6)", "cartesian_stand_in_family": "(n_b, n_o, n_t) in {(1,2,2), (2,2,2), (2,3,1), (2,1,2)}",
                "cartesian_face_areas": "real Qhull combinatorics of ico_{4,5,6,12} x {2,3} radii; one symbolic positive area per distinct face polygon"}
    return {"n_b": [1, 2, 3, 4], "n_o": [1, 2, 3, 4], "n_t": [1, 2, 3, 4], "cells": "<= 36; n_b=4 with seeded halves of the 4096 rotation patterns",
            "cartesian_face_areas": "real Qhull combinatorics of ico_{4,5,6,8,12,20} x {2,3} radii; one symbolic positive area per distinct face polygon"}


def shapes(tier, seed):
    out = []
    if tier == "quick":
        combos = [(b, o, t) for b in (1, 2, 3) for o in (1, 2, 3) for t in (1, 2, 3) if not (b == 3 and o * t > 6)]
    else:
        combos = [(b, o, t) for b in (1, 2, 3) for o in (1, 2, 3, 4) for t in (1, 2, 3, 4) if b * o * t <= 36]
    for (b, o, t) in combos:
        pats = list(sym_patterns(o))
        if o == 4:
            rng = np.random.default_rng(seed + b + t)
            pats = [pats[0], pats[-1]] + [pats[int(i)] for i in rng.integers(0, len(pats), size=4)]
        for pat in pats:
            out.append({"n_b": b, "n_o": o, "n_t": t, "pattern": [list(p) for p in pat], "gseed": seed + len(pat), "fixed": {}})
    if tier == "thorough":
        rng = np.random.default_rng(seed)
        for bits in itertools.product((False, True), repeat=5):
            out.append({"n_b": 4, "n_o": 1, "n_t": 2, "pattern": [], "gseed": seed, "fixed": {str(i): bool(b) for i, b in enumerate(bits)}})
    # Cartesian position mode: the three Cartesian getters of the position grid are Qhull (contract stubs: fresh positive values on the
    # adjacency pattern, positive volumes); what FullGrid makes of them must follow the same rule -- the position-grid quantity, times f / f^2
    for (b, o, t) in ((1, 2, 2), (2, 2, 2), (2, 3, 1), (2, 1, 2)):
        pats = list(sym_patterns(o))
        out.append({"n_b": b, "n_o": o, "n_t": t, "pattern": [list(p) for p in pats[-1]], "gseed": seed + 1, "fixed": {}, "cartesian": True})
    out.sort(key=lambda s: (s["n_b"] * s["n_o"] * s["n_t"], s["n_b"]))
    # Cartesian face areas as the position grid itself assembles them: real Qhull combinatorics of a concrete grid, SYMBOLIC polygon areas
    for (o, t) in ((4, 2), (5, 2), (6, 3), (12, 2)) if tier == "quick" else ((4, 2), (5, 2), (6, 2), (6, 3), (8, 2), (12, 2), (12, 3), (20, 2)):
        out.append({"kind": "cart_surfaces", "n_b": 1, "n_o": o, "n_t": t, "pattern": [], "gseed": seed, "fixed": {}})
    return out


def _vars(shape):
    n_b, n_o, n_t = shape["n_b"], shape["n_o"], shape["n_t"]
    pattern = [tuple(p) for p in shape["pattern"]]
    R = z3.Real
    area = [R(f"a{i}") for i in range(n_o)]
    arc, ang = {}, {}
    for (i, j) in pattern:
        arc[(i, j)] = arc[(j, i)] = R(f"arc{i}_{j}")
        ang[(i, j)] = ang[(j, i)] = R(f"ang{i}_{j}")
    r = [R(f"r{k}") for k in range(n_t)]
    f = R("f")
    orb, order = orbits(n_b) if n_b > 1 else ({}, [])
    pat = {k: z3.Bool("adj_%d_%d" % k) for k in order}
    val = {p: {k: R(f"{p[0]}_%d_%d" % k) for k in order} for p in ("border_len", "center_distances")}
    vols = [R(f"vol{i}") for i in range(n_b)] if n_b > 1 else []
    return area, arc, ang, r, f, orb, order, pat, val, vols


CS_RADII = {2: "[0.1, 0.25]", 3: "[0.1, 0.25, 0.45]"}


def _cs_key(polygon):
    return tuple(sorted(tuple(round(float(c), 7) for c in v) for v in np.asarray(polygon, dtype=float).reshape(-1, 3)))


def _cs_grid(F, shape):
    return F.FullGrid("1", f"ico_{shape['n_o']}", CS_RADII[shape["n_t"]], position_grid_cartesian=True)


def _cs_expected_key(pg, i, j):
    """the face between Cartesian cells i and j, as the statement means it: the Voronoi vertices the two cells share"""
    vc = pg.voronoi_cells
    ri, rj = vc.regions[vc.point_region[i]], vc.regions[vc.point_region[j]]
    shared = (set(ri) & set(rj)) - {-1}          # -1 marks an open cell (a vertex at infinity): no coordinates, not part of the polygon
    return _cs_key([v for k, v in enumerate(vc.vertices) if k in shared]), len(shared)


def run_cart_surfaces(shape):
    """Cartesian position mode, face areas: the REAL PositionGrid.get_cartesian_surfaces / _get_coordinates_of_border_polygons /
    get_adjacency_of_position_grid run on a concrete grid with the real Qhull combinatorics; the AREA of a polygon (vertex ordering +
    shoelace: utils.order_points / get_polygon_area, out of reach, see C06) is a contract stand-in: a fresh positive number per distinct
    vertex set.  Proved for all values of those areas: entry (i, j) is the area of the polygon the Voronoi cells i and j share -- hence the
    matrix is symmetric -- on the adjacency pattern."""
    import contextlib, io
    import molgri.space.fullgrid as F
    eng = Engine()
    prover = Prover(timeout_ms=10000, budget_s=120)
    acc = Acc(shape)
    areas = {}

    def area_of(polygon):
        key = _cs_key(polygon)
        if key not in areas:
            areas[key] = z3.Real(f"face_area_{len(areas)}")
        return SR(areas[key])

    def body():
        areas.clear()
        with contextlib.redirect_stdout(io.StringIO()):
            fg = _cs_grid(F, shape)          # the grid itself (directions, radii, Qhull) is a concrete run of the real constructors
            pg = fg.position_grid
            A0 = pg.get_adjacency_of_position_grid()      # concrete: plain numpy / scipy (its content is C05's and the other C02 shapes' matter)
            # the assembly of the face areas runs on the array model (symbolic areas may be stored into fresh arrays); the adjacency it
            # asks for is the concrete one computed above -- the array model and real scipy.sparse are not mixed inside that computation
            pg.get_adjacency_of_position_grid = lambda: A0.copy()
            try:
                with bound(F, get_polygon_area=area_of, order_points=lambda pts: pts, print=noprint, np=NPProxy()):
                    S = pg.get_borders_of_position_grid()
            finally:
                del pg.get_adjacency_of_position_grid
            A = pg.get_adjacency_of_position_grid()
            return pg, S, A

    for path in eng.explore(body):
        acc.begin(prover, path)
        if path.kind == "exc":
            acc.structural("no_exception", False, detail=repr(path.value) + (path.tb or "")[-600:], cex={"kind": "exception", "exc": type(path.value).__name__, "model": {}})
            continue
        pg, S, A = path.value
        pos = [v > 0 for v in areas.values()]
        if acc.reachable is not True:
            acc.reach(prover.satisfiable(path.premises + pos))
        n = len(pg.get_position_grid_as_array())
        ok = tuple(S.shape) == (n, n) and len(S.row) == len(S.col) == len(S.data) == len(A.row) and list(map(int, S.row)) == list(map(int, A.row)) \
            and list(map(int, S.col)) == list(map(int, A.col))
        acc.structural("stored_on_the_adjacency_pattern", ok, detail=(tuple(S.shape), len(S.data), len(A.row)), cex={"model": {}})
        if not ok:
            continue
        got = {}
        claims = []
        for i, j, v in zip(S.row, S.col, S.data):
            i, j = int(i), int(j)
            got[(i, j)] = v
            key, nshared = _cs_expected_key(pg, i, j)
            exp = areas.get(key) if nshared > 1 else z3.RealVal(0)
            if exp is None:
                acc.structural(f"face_polygon_seen[{i},{j}]", False, detail="the polygon shared by the two cells never reached the area function", cex={"model": {}})
                continue
            claims.append((f"entry_is_the_area_of_the_shared_face[{i},{j}]", z(v) == exp))
        for (i, j), v in got.items():
            if (j, i) in got and i < j:
                claims.append((f"sym[{i},{j}]", z(v) == z(got[(j, i)])))
            elif (j, i) not in got:
                acc.structural(f"pattern_symmetric[{i},{j}]", False, detail="entry without its mirror image", cex={"model": {}})
        acc.add(prover.prove_all(path.premises + pos, claims), make_cex=lambda r_: {"model": r_.model or {}})
    return acc.result(eng.stats, prover.stats)


def replay_cart_surfaces(cex):
    """real Qhull, real order_points / get_polygon_area: the matrix must be symmetric and sit on the adjacency pattern; entry (i, j) must be
    the area the real area function gives for the polygon the two cells share"""
    import contextlib, io
    import molgri.space.fullgrid as F
    from molgri.space.utils import get_polygon_area, order_points
    s = cex["shape"]
    try:
        with contextlib.redirect_stdout(io.StringIO()):
            fg = _cs_grid(F, s)
            pg = fg.position_grid
            S = pg.get_borders_of_position_grid()
            A = pg.get_adjacency_of_position_grid()
    except Exception as e:  # noqa: BLE001
        return {"reproduced": True, "detail": f"raised {e!r}"}
    bad = []
    D = S.toarray()
    if list(map(int, S.row)) != list(map(int, A.row)) or list(map(int, S.col)) != list(map(int, A.col)):
        bad.append("not on the adjacency pattern")
    if not np.allclose(D, D.T, rtol=1e-9, atol=1e-12):
        i, j = np.unravel_index(np.argmax(np.abs(D - D.T)), D.shape)
        bad.append(f"face area between Cartesian cells {i} and {j}: {D[i, j]:.6g} in row {i} but {D[j, i]:.6g} in row {j}")
    vc = pg.voronoi_cells
    for i, j, v in zip(S.row, S.col, S.data):
        shared = set(vc.regions[vc.point_region[i]]) & set(vc.regions[vc.point_region[j]])
        poly = np.array([x for k, x in enumerate(vc.vertices) if k in shared])
        exp = get_polygon_area(order_points(poly)) if len(poly) > 1 else 0.0
        if not np.isclose(v, exp, rtol=1e-9, atol=1e-12):
            bad.append(f"entry ({i},{j}) = {v:.6g}, the shared face has area {exp:.6g}")
            break
    return {"reproduced": bool(bad), "detail": str(bad[:3])}


def run_shape(shape):
    if shape.get("kind") == "cart_surfaces":
        return run_cart_surfaces(shape)
    import molgri.space.fullgrid as F
    import molgri.space.translations as TR
    import molgri.space.voronoi as Vm
    n_b, n_o, n_t = shape["n_b"], shape["n_o"], shape["n_t"]
    pattern = [tuple(p) for p in shape["pattern"]]
    area, arc, ang, r, f, orb, order, pat, val, vols = _vars(shape)
    eng = Engine()
    prover = Prover(timeout_ms=30000, budget_s=900)
    acc = Acc(shape)
    pos = area + list(set(arc.values())) + list(set(ang.values())) + r + [f] + vols + [v for p in val for v in val[p].values()]
    pre = [v > 0 for v in pos] + [r[k + 1] > r[k] for k in range(n_t - 1)]
    eng.assume_global(*pre)
    for v in pos:
        eng.declare_sign(v, "+")
    for i, b in shape["fixed"].items():
        eng.assume_global(pat[order[int(i)]] if b else z3.Not(pat[order[int(i)]]))
    proxy = NPProxy()
    G = gen_G(n_b, shape["gseed"]) if n_b > 1 else None
    o = DirStub(n_o, pattern, [SR(a) for a in area], {k: SR(v) for k, v in arc.items()}, {k: SR(v) for k, v in ang.items()}, sp, lambda l: sarr(l))
    N = n_b
    opp = lambda i: (i + N) % (2 * N)
    dv = decoy_value_factory(eng)
    cart = bool(shape.get("cartesian"))
    cpool = {}

    def cv(name):
        """the Cartesian geometry of the grid under test (Qhull: contract stub): a named positive quantity"""
        if name not in cpool:
            cpool[name] = z3.Real("cart_" + name)
            eng.declare_sign(cpool[name], "+")
            eng.assume_global(cpool[name] > 0)
            if Engine.cur is not None:
                Engine.cur.pc.append(cpool[name] > 0)
        return SR(cpool[name])

    def body():
        with bound(F, bmat=sp.bmat, kron=sp.kron, identity=sp.identity, eye=sp.eye, block_diag=sp.block_diag, coo_matrix=sp.coo_array, csr_matrix=sp.csr_array, csc_matrix=sp.csc_array, csr_array=sp.csr_array, csc_array=sp.csc_array, coo_array=sp.coo_array, diags=sp.diags, print=noprint, np=proxy), bound(TR, np=proxy, print=noprint), \
                bound(Vm, coo_array=sp.coo_array, print=noprint, np=proxy):
            stub = FullSphereStub(n_b, sp, lambda k: bool(SB(pat[k])), lambda p, k: SR(val[p][k]), lambda i: SR(vols[i]), lambda l: sarr(l)) if n_b > 1 else None
            radii = sarr([SR(x) for x in r])
            # other full grids of the same process (another factor and a colliding radial grid; a Cartesian twin under the same names):
            # built and asked for everything before the grid under test exists, and again between its construction and its first getter
            exercise_full_decoys(F, TR, Vm, n_b, o, radii, SR(f), sarr, dv, G, stub, tag="A")
            if cart:
                with bound(F, Voronoi=fgstub._NoQhull):
                    fg = make_fullgrid(F, TR, Vm, n_b, o, radii, SR(f), G, stub, cartesian=True)
                fgstub._stub_cartesian_getters(fg.position_grid, sarr, cv, "own_")
            else:
                fg = make_fullgrid(F, TR, Vm, n_b, o, radii, SR(f), G, stub)
            exercise_full_decoys(F, TR, Vm, n_b, o, radii, SR(f), sarr, dv, G, stub, tag="B")
            A, B, D = fg.get_full_adjacency(), fg.get_full_borders(), fg.get_full_distances()
            V = fg.get_total_volumes()
            # history on the same object: the prefactor getter divides in place on what the border getter hands out; asking for the
            # matrices again afterwards must give the same answers
            first = {k: (list(M.tocoo().row), list(M.tocoo().col), list(M.tocoo().data)) for k, M in (("adjacency", A), ("border_len", B), ("center_distances", D))}
            fg.get_full_prefactors()
            again = {"adjacency": fg.get_full_adjacency(), "border_len": fg.get_full_borders(), "center_distances": fg.get_full_distances()}
            return A, B, D, V, len(fg), first, again

    Rb, pvol, padj, pbor, pdis = position_spec(n_o, n_t, area, arc, ang, r, zero=z3.RealVal(0))

    def rot(prop, i, j):
        """folded rotation-grid entry from the stub's contract: ite(A_ij != 0, A_ij, A_{i,j+N})"""
        if n_b == 1 or i == j:
            return z3.RealVal(0)
        def A(i_, j_):
            if i_ == j_ or j_ == opp(i_):
                return z3.RealVal(0)
            kk = orb[(i_, j_)]
            return z3.If(pat[kk], z3.RealVal(1) if prop == "adjacency" else val[prop][kk], z3.RealVal(0))
        a, b = A(i, j), A(i, opp(j))
        return z3.If(a != 0, a, b)

    n = n_b * n_o * n_t
    fac = {"adjacency": z3.RealVal(1), "border_len": f * f, "center_distances": f}
    if cart:
        npos = n_o * n_t
        cq = lambda kind, a, b: z3.Real("cart_own_%s%d_%d" % ((kind,) + tuple(sorted((a, b)))))
        pbor = [[cq("cs", a, b) if padj[a][b] else z3.RealVal(0) for b in range(npos)] for a in range(npos)]
        pdis = [[cq("cd", a, b) if padj[a][b] else z3.RealVal(0) for b in range(npos)] for a in range(npos)]
        pvol = [z3.Real(f"cart_own_cv{a}") for a in range(npos)]
    pq = {"adjacency": padj, "border_len": pbor, "center_distances": pdis}
    for path in eng.explore(body):
        acc.begin(prover, path)
        if path.kind == "exc":
            if fgstub.BYPASSED:
                bypass_guard(path.value)
            acc.structural("no_exception", False, detail=repr(path.value) + (path.tb or "")[-600:], cex={"kind": "exception", "exc": type(path.value).__name__, "model": _model(path)})
            continue
        if acc.reachable is not True:
            acc.reach(prover.satisfiable(path.premises))
        A, B, D, V, ln, first, again = path.value
        mats = {"adjacency": A, "border_len": B, "center_distances": D}
        ok_shape = all(tuple(M.shape) == (n, n) for M in mats.values()) and len(V) == n and ln == n
        acc.structural("shapes", ok_shape, detail=str({k: M.shape for k, M in mats.items()}) + f" len(V)={len(V)} len={ln}", cex={"model": _model(path)})
        if not ok_shape:
            continue
        try:
            csr = {k: M.tocsr() for k, M in mats.items()}
            same = all(list(csr[k].indices) == list(csr["adjacency"].indices) and list(csr[k].indptr) == list(csr["adjacency"].indptr) for k in csr)
            coo = {k: M.tocoo() for k, M in mats.items()}
            same = same and all(list(coo[k].row) == list(coo["adjacency"].row) and list(coo[k].col) == list(coo["adjacency"].col) for k in coo)
            same = same and len({getattr(M, "format", None) for M in mats.values()}) == 1
        except Exception as e:  # noqa: BLE001
            same = False
        acc.structural("one_pattern_and_stored_order", same, detail="indices/indptr or row/col or format of the three matrices differ", cex={"model": _model(path)})
        claims = []
        for prop, M in mats.items():
            Md = M.toarray()
            for a in range(n):
                pa, ra = divmod(a, n_b)
                for b in range(n):
                    pb, rb = divmod(b, n_b)
                    if a == b:
                        exp = z3.RealVal(0)
                    elif ra == rb:
                        exp = pq[prop][pa][pb] * fac[prop] if prop != "adjacency" else z3.RealVal(padj[pa][pb])
                    elif pa == pb:
                        exp = rot(prop, ra, rb)
                    else:
                        exp = z3.RealVal(0)
                    got = z(Md[a, b])
                    claims.append((f"entry[{prop},{a},{b}]", got == exp))
                    if a < b:
                        claims.append((f"sym[{prop},{a},{b}]", got == z(Md[b, a])))
            # stored entries are strictly positive (no explicit zeros), so the pattern is the adjacency relation
            Mc = M.tocoo()
            for v in Mc.data:
                claims.append((f"stored_positive[{prop}]#{len(claims)}", z(v) > 0))
        for prop in mats:
            r0, c0, d0 = first[prop]
            Mc = again[prop].tocoo()
            if list(Mc.row) != r0 or list(Mc.col) != c0:
                acc.structural(f"getters_after_prefactors_same_pattern[{prop}]", False, detail="pattern changed after get_full_prefactors()", cex={"model": _model(path)})
                continue
            for k_, (v0, v1) in enumerate(zip(d0, Mc.data)):
                claims.append((f"getters_after_prefactors[{prop}]#{k_}", z(v1) == z(v0)))
        for a in range(n):
            pa, ra = divmod(a, n_b)
            vrot = vols[ra] if n_b > 1 else z3.RealVal(str(__import__("fractions").Fraction(np.pi ** 2)))
            if n_b == 1:
                claims.append((f"volume[{a}]", z(V[a]) == pvol[pa] * f * f * f * z(Vm.MikroVoronoi(4, 1).get_voronoi_volumes()[0])))
            else:
                claims.append((f"volume[{a}]", z(V[a]) == pvol[pa] * vrot * f * f * f))
        acc.add(prover.prove_all(path.premises, claims), make_cex=lambda r_: {})
    return acc.result(eng.stats, prover.stats)


def _model(path):
    s = z3.Solver()
    s.set("timeout", 3000)
    s.add(*path.premises)
    if s.check() == z3.sat:
        from symx.prove import model_to_dict
        return {k: (str(v) if not isinstance(v, bool) else v) for k, v in model_to_dict(s.model()).items()}
    return {}


# ------------------------------------------------------------------------------------------ replay on the real code
def real_fullgrid(shape, model):
    import scipy.sparse as rsp
    import molgri.space.fullgrid as F
    import molgri.space.translations as TR
    import molgri.space.voronoi as Vm
    n_b, n_o, n_t = shape["n_b"], shape["n_o"], shape["n_t"]
    pattern = [tuple(p) for p in shape["pattern"]]
    g = lambda nm, d: fval(model, nm, d)
    area = [g(f"a{i}", 1.0 + 0.13 * i) for i in range(n_o)]
    arc, ang = {}, {}
    for (i, j) in pattern:
        arc[(i, j)] = arc[(j, i)] = g(f"arc{i}_{j}", 0.5 + 0.01 * (i + 3 * j))
        ang[(i, j)] = ang[(j, i)] = g(f"ang{i}_{j}", 0.7 + 0.02 * (i + 5 * j))
    r = [g(f"r{k}", None) for k in range(n_t)]
    if any(x is None for x in r) or any(r[k + 1] <= r[k] for k in range(n_t - 1)) or r[0] <= 0:
        r = list(np.cumsum([1.0 + 0.37 * k for k in range(n_t)]))
    f = g("f", 2.0)
    orb, order = orbits(n_b) if n_b > 1 else ({}, [])
    fixed = {order[int(i)]: b for i, b in shape.get("fixed", {}).items()}

    def present(k):
        if k in fixed:
            return fixed[k]
        v = model.get("adj_%d_%d" % k)
        return bool(v) if isinstance(v, bool) else (sum(k) % 2 == 0)
    value = lambda p, k: g(f"{p[0]}_%d_%d" % k, 1.0 + 0.1 * k[0] + 0.013 * k[1] + (0.5 if p[0] == "c" else 0.0))
    volume = lambda i: g(f"vol{i}", 1.0 + 0.2 * i)
    G = gen_G(n_b, shape["gseed"]) if n_b > 1 else None
    o = DirStub(n_o, pattern, area, arc, ang, rsp, lambda l: np.array(l))
    stub = FullSphereStub(n_b, rsp, present, value, volume, lambda l: np.array(l)) if n_b > 1 else None
    dvf = float_decoy_values()
    mk = lambda l: np.array(l, dtype=float)
    import contextlib, io
    with contextlib.redirect_stdout(io.StringIO()):
        exercise_full_decoys(F, TR, Vm, n_b, o, np.array(r, dtype=float), f, mk, dvf, G, stub, tag="A")
        if shape.get("cartesian"):
            from harness.common import bound as _bound
            with _bound(F, Voronoi=fgstub._NoQhull):
                fg = make_fullgrid(F, TR, Vm, n_b, o, np.array(r, dtype=float), f, G, stub, cartesian=True)
            cvals = {}

            def cvf(name):
                if name not in cvals:
                    cvals[name] = g("cart_" + name, 0.41 + 0.037 * len(cvals))
                return cvals[name]
            fgstub._stub_cartesian_getters(fg.position_grid, mk, cvf, "own_")
        else:
            fg = make_fullgrid(F, TR, Vm, n_b, o, np.array(r, dtype=float), f, G, stub)
        exercise_full_decoys(F, TR, Vm, n_b, o, np.array(r, dtype=float), f, mk, dvf, G, stub, tag="B")
    spec = dict(area=area, arc=arc, ang=ang, r=r, f=f, present=present, value=value, volume=volume, orb=orb,
                cart=(lambda name: g("cart_" + name, None)) if shape.get("cartesian") else None)
    return fg, spec


def numeric_violations(shape, model):
    import contextlib, io
    n_b, n_o, n_t = shape["n_b"], shape["n_o"], shape["n_t"]
    fg, sp_ = real_fullgrid(shape, model)
    with contextlib.redirect_stdout(io.StringIO()), real_code():
        A, B, D = fg.get_full_adjacency(), fg.get_full_borders(), fg.get_full_distances()
        V = fg.get_total_volumes()
        firstd = {k: np.asarray(M.toarray(), dtype=float).copy() for k, M in (("adjacency", A), ("border_len", B), ("center_distances", D))}
        fg.get_full_prefactors()
        againd = {"adjacency": fg.get_full_adjacency(), "border_len": fg.get_full_borders(), "center_distances": fg.get_full_distances()}
        A, B, D = againd["adjacency"], againd["border_len"], againd["center_distances"]   # the property must hold for these as well
    n = n_b * n_o * n_t
    N = n_b
    opp = lambda i: (i + N) % (2 * N)
    Rb, pvol, padj, pbor, pdis = position_spec(n_o, n_t, sp_["area"], sp_["arc"], sp_["ang"], sp_["r"], zero=0.0)
    f = sp_["f"]
    if sp_.get("cart"):
        # Cartesian mode: the position-grid quantities are whatever the (stubbed) Cartesian getters of THIS object answer
        pg = fg.position_grid
        npos = n_o * n_t
        Sd = np.asarray(pg.get_cartesian_surfaces().toarray(), dtype=float)
        Dd = np.asarray(pg.get_cartesian_distances().toarray(), dtype=float)
        pbor = [[Sd[a, b] if padj[a][b] else 0.0 for b in range(npos)] for a in range(npos)]
        pdis = [[Dd[a, b] if padj[a][b] else 0.0 for b in range(npos)] for a in range(npos)]
        pvol = [float(x) for x in pg.get_cartesian_volumes()]

    def Afull(prop, i, j):
        if i == j or j == opp(i):
            return 0.0
        kk = sp_["orb"][(i, j)]
        if not sp_["present"](kk):
            return 0.0
        return 1.0 if prop == "adjacency" else sp_["value"](prop, kk)

    def rot(prop, i, j):
        if n_b == 1 or i == j:
            return 0.0
        a = Afull(prop, i, j)
        return a if a != 0 else Afull(prop, i, opp(j))
    bad = []
    for k_, M in againd.items():
        if not np.allclose(np.asarray(M.toarray(), dtype=float), firstd[k_], rtol=1e-12, atol=0):
            bad.append(f"getters_after_prefactors[{k_}]")
    mats = {"adjacency": A, "border_len": B, "center_distances": D}
    if not (all(tuple(M.shape) == (n, n) for M in mats.values()) and len(V) == n):
        return [f"shapes {[M.shape for M in mats.values()]} {len(V)}"]
    csr = {k: M.tocsr() for k, M in mats.items()}
    if not all(list(csr[k].indices) == list(csr["adjacency"].indices) and list(csr[k].indptr) == list(csr["adjacency"].indptr) for k in csr):
        bad.append("one_pattern_and_stored_order")
    fac = {"adjacency": 1.0, "border_len": f * f, "center_distances": f}
    pq = {"adjacency": padj, "border_len": pbor, "center_distances": pdis}
    for prop, M in mats.items():
        Md = np.asarray(M.toarray(), dtype=float)
        if np.any(np.asarray(M.tocoo().data, dtype=float) <= 0):
            bad.append(f"stored_positive[{prop}]")
        for a in range(n):
            pa, ra = divmod(a, n_b)
            for b in range(n):
                pb, rb = divmod(b, n_b)
                if a == b:
                    exp = 0.0
                elif ra == rb:
                    exp = float(pq[prop][pa][pb]) * fac[prop] if prop != "adjacency" else float(padj[pa][pb])
                elif pa == pb:
                    exp = rot(prop, ra, rb)
                else:
                    exp = 0.0
                if not isclose(Md[a, b], exp):
                    bad.append(f"entry[{prop},{a},{b}] got {Md[a, b]} expected {exp}")
    for a in range(n):
        pa, ra = divmod(a, n_b)
        vr = sp_["volume"](ra) if n_b > 1 else float(np.pi ** 2)
        if not isclose(float(V[a]), pvol[pa] * vr * f ** 3):
            bad.append(f"volume[{a}]")
    return bad


def replay(cex):
    if cex["shape"].get("kind") == "cart_surfaces":
        return replay_cart_surfaces(cex)
    try:
        bad = numeric_violations(cex["shape"], cex.get("model", {}) or {})
    except RealCodeRaised as e:
        return {"reproduced": True, "detail": f"real code raised {e}"}
    except Exception as e:  # noqa: BLE001 - the harness's own oracle failed on this model (overflow ...): not a verdict about the code
        return {"reproduced": False, "detail": f"oracle could not be evaluated on this model: {e!r}"}
    return {"reproduced": bool(bad), "detail": f"failing on the real functions: {bad[:6]}"}


def finding_key(cex):
    s = cex["shape"]
    return f"C02:{cex['obligation'].split('[')[0].split('#')[0]}:n_b={s['n_b']}"


DEFERRED_ERRORS = []


def selftest(seed):
    from harness.geom import direction_contract
    del DEFERRED_ERRORS[:]
    n = sparse_selftest(seed, rounds=6)
    try:
        n += direction_contract()
    except Exception:  # noqa: BLE001
        import traceback
        DEFERRED_ERRORS.append("contract of the direction grid's compiled geometry broken on a small real grid (DirStub assumes it):\n" + traceback.format_exc()[-1500:])
    try:
        from harness.c04 import stub_contract          # the rotation grid's side (FullSphereStub assumes it)
        n += stub_contract()
    except Exception:  # noqa: BLE001
        import traceback
        DEFERRED_ERRORS.append("contract of the rotation grid's compiled geometry broken on a small real grid (FullSphereStub assumes it):\n" + traceback.format_exc()[-1500:])
    return n
