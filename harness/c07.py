"""C07 -- (double-cover logic only) rotations are unique: canonical half, [G; -G] layout.

Real `q_in_upper_sphere`, `hemisphere_quaternion_set`, `find_inverse_quaternion`, `SphereGrid4Dim._gen_grid`,
`SphereGridNDim.gen_grid` (shape / norm assertions, cell-model threshold), `get_grid_as_array`, `get_upper_indices`,
`get_N` run on SYMBOLIC quaternion coordinates.  That the concrete generators return N distinct, well separated points is
a concrete run with nothing to quantify over: outside (DESIGN section 6).
"""
import itertools

import numpy as np
import z3

from symx.core import Engine, SR, SB, noprint
from symx.arr import sarr
from symx.npproxy import NPProxy
from symx.prove import Prover
from symx.runner import Acc
from harness.common import bound, z, fval

PROPERTY = "C07"
FUNCTIONS = ["molgri.space.rotobj.FullDivCube4DRotations.__init__ (size gate)", "molgri.space.utils.q_in_upper_sphere", "utils.hemisphere_quaternion_set", "utils.find_inverse_quaternion", "utils.is_array_with_d_dim_r_rows_c_columns",
             "molgri.space.rotobj.SphereGrid4Dim._gen_grid", "SphereGridNDim.gen_grid", "SphereGridNDim.get_grid_as_array", "SphereGrid4Dim.get_grid_as_array",
             "SphereGridNDim.get_upper_indices", "SphereGridNDim.get_N"]
STUBS = ["the generator: a subclass whose _gen_grid installs an arbitrary symbolic half grid and calls the real SphereGrid4Dim._gen_grid",
         "rotobj.HalfRotobjVoronoi (Qhull) -> inert object", "sqrt -> fresh variable r>=0, r^2=x"]
ASSUMPTIONS = ["every coordinate is 0 or |x| > 1e-5 (true for lattice projections; it keeps the np.allclose tolerance band out: a coordinate in (0,1e-8] "
               "makes q and -q both 'upper', which no generator can produce)", "float modelled by the reals"]
OUTSIDE = ["that the polytope / random generators return N pairwise distinct, well separated unit points for every N (concrete run, DESIGN section 6)",
           "N beyond the bound"]
EPS = z3.RealVal("1/100000")


def bounds(tier):
    return {"single_quaternion": "all sign/zero structures", "hemisphere_quaternion_set": "N<=2 (thorough 3) arbitrary quaternions, both `upper` values",
            "fulldiv_size_gate": "N in {8, 40, 272, 2080} each as a case; every other integer N >= 1 symbolic",
            "double_cover": "N in 1..4 canonical unit rows (quick: for N=4 rows 3,4 have a positive first coordinate); plus an axis-aligned row of symbolic length off 1 by > 1e-3 (assertion)"}


def shapes(tier, seed):
    out = [{"kind": "upper"}]
    for N in ((1, 2) if tier == "quick" else (1, 2, 3)):
        for upper in (True, False):
            out.append({"kind": "hemi", "N": N, "upper": upper})
    for N in (1, 2, 3, 4):
        out.append({"kind": "double", "N": N, "unit": True, "lead": 2 if (N == 4 and tier == "quick") else N})
    out.append({"kind": "double", "N": 1, "unit": False, "lead": 1})
    for N in (1, 2, 3):
        out.append({"kind": "double", "N": N, "unit": True, "lead": N, "history": True})
    for N in (8, 40, 272, 2080, "other"):
        out.append({"kind": "fulldiv", "N": N})
    return out


def generic(x):
    return z3.Or(x == 0, x > EPS, x < -EPS)


def canonical(q):
    """first non-zero coordinate positive (the statement's definition)"""
    c = z3.BoolVal(False)
    for i in reversed(range(len(q))):
        c = z3.If(q[i] > 0, True, z3.If(q[i] < 0, False, c))
    return c


def run_shape(shape):
    return {"upper": run_upper, "hemi": run_hemi, "double": run_double, "fulldiv": run_fulldiv}[shape["kind"]](shape)


def run_fulldiv(shape):
    """the size gate of the fulldiv algorithm: its four admissible N (each as a case) are accepted with 0,1,2,3 subdivisions, every
    OTHER integer N >= 1 (symbolic) is rejected with ValueError.  The polytope is a counter: subdividing is a concrete run (outside)."""
    import molgri.space.rotobj as RO
    eng = Engine()
    prover = Prover(timeout_ms=10000, budget_s=120)
    acc = Acc(shape)
    admissible = (8, 40, 272, 2080)
    nsym = z3.Int("N")
    eng.assume_global(nsym >= 1, *[nsym != a for a in admissible])

    class Counter:
        def __init__(self):
            self.divides = 0

        def divide_edges(self):
            self.divides += 1

    def body():
        with bound(RO, Cube4DPolytope=Counter, print=noprint):
            g = RO.FullDivCube4DRotations(N=shape["N"] if shape["N"] != "other" else SR(z3.ToReal(nsym)))
            return g.polytope.divides, g.N

    for path in eng.explore(body):
        acc.begin(prover, path)
        if acc.reachable is not True:
            acc.reach(prover.satisfiable(path.premises))
        if shape["N"] == "other":
            acc.structural("other_sizes_rejected_with_ValueError", path.kind == "exc" and isinstance(path.value, ValueError), detail=repr(path.value), cex={"N": "other", "model": _model_n(path)})
        else:
            ok = path.kind == "ok" and path.value[0] == admissible.index(shape["N"]) and path.value[1] == shape["N"]
            acc.structural("admissible_size_accepted_with_its_subdivision_level", ok, detail=repr(path.value), cex={"N": shape["N"]})
    return acc.result(eng.stats, prover.stats)


def _model_n(path):
    s_ = z3.Solver()
    s_.add(*path.premises)
    return {"N": str(s_.model()[z3.Int("N")])} if s_.check() == z3.sat else {}


def run_upper(shape):
    import molgri.space.utils as U
    q = [z3.Real(f"q{k}") for k in range(4)]
    eng = Engine()
    prover = Prover(timeout_ms=10000, budget_s=300)
    acc = Acc(shape)
    eng.assume_global(*[generic(x) for x in q])
    proxy = NPProxy()

    def body():
        with bound(U, np=proxy, print=noprint):
            a = sarr([SR(x) for x in q])
            return U.q_in_upper_sphere(a), U.q_in_upper_sphere(-a), U.find_inverse_quaternion(a)

    for path in eng.explore(body):
        acc.begin(prover, path)
        if path.kind == "exc":
            acc.structural("no_exception", False, detail=repr(path.value) + (path.tb or "")[-500:], cex={"kind": "exception", "exc": type(path.value).__name__})
            continue
        if acc.reachable is not True:
            acc.reach(prover.satisfiable(path.premises))
        up, upneg, inv = path.value
        nz = z3.Or([x != 0 for x in q])
        claims = [("upper_iff_first_nonzero_positive", z3.BoolVal(bool(up)) == canonical(q)),
                  ("exactly_one_of_q_and_minus_q", z3.Implies(nz, z3.BoolVal(bool(up)) != z3.BoolVal(bool(upneg)))),
                  ("zero_vector_is_lower", z3.Implies(z3.Not(nz), z3.BoolVal(not bool(up))))]
        claims += [(f"inverse_is_negation[{k}]", z(inv[k]) == -q[k]) for k in range(4)]
        acc.add(prover.prove_all(path.premises, claims), make_cex=lambda r: {})
    return acc.result(eng.stats, prover.stats)


def run_hemi(shape):
    import molgri.space.utils as U
    N, upper = shape["N"], shape["upper"]
    Q = [[z3.Real(f"q{i}_{k}") for k in range(4)] for i in range(N)]
    eng = Engine()
    prover = Prover(timeout_ms=10000, budget_s=600)
    acc = Acc(shape)
    eng.assume_global(*[generic(x) for row in Q for x in row], *[z3.Or([x != 0 for x in row]) for row in Q])
    proxy = NPProxy()

    def body():
        with bound(U, np=proxy, print=noprint):
            given = sarr([[SR(x) for x in row] for row in Q])      # a float array owned by the caller
            out = U.hemisphere_quaternion_set(given, upper=upper)
            return out, given

    for path in eng.explore(body):
        acc.begin(prover, path)
        if path.kind == "exc":
            acc.structural("no_exception", False, detail=repr(path.value) + (path.tb or "")[-500:], cex={"kind": "exception", "exc": type(path.value).__name__})
            continue
        if acc.reachable is not True:
            acc.reach(prover.satisfiable(path.premises))
        out, given = path.value
        acc.structural("shape", tuple(np.shape(out)) == (N, 4) and tuple(np.shape(given)) == (N, 4), detail=np.shape(out))
        if tuple(np.shape(out)) != (N, 4) or tuple(np.shape(given)) != (N, 4):
            continue
        # (that the caller's array comes back untouched is NOT demanded here: C07 speaks about grids; what an in-place helper does to a grid
        # that hands out its own array is the history of the `double` shapes)
        claims = []
        for i in range(N):
            row = [z(out[i, k]) for k in range(4)]
            want_canon = canonical(Q[i]) if upper else z3.Not(canonical(Q[i]))
            for k in range(4):
                claims.append((f"row_is_plus_or_minus_q[{i},{k}]", row[k] == z3.If(want_canon, Q[i][k], -Q[i][k])))
            claims.append((f"row_in_requested_half[{i}]", canonical(row) == z3.BoolVal(upper)))
        acc.add(prover.prove_all(path.premises, claims), make_cex=lambda r: {})
    return acc.result(eng.stats, prover.stats)


def run_double(shape):
    import molgri.space.rotobj as RO
    import molgri.space.utils as U
    N, unit = shape["N"], shape["unit"]
    G = [[z3.Real(f"g{i}_{k}") for k in range(4)] for i in range(N)]
    eng = Engine()
    prover = Prover(timeout_ms=10000, budget_s=600)
    acc = Acc(shape)
    pre = [generic(x) for row in G for x in row] + [canonical(row) for row in G]
    if unit:
        pre += [z3.Sum([x * x for x in row]) == 1 for row in G]
        # rows beyond `lead` have a positive first coordinate (fewer sign structures to fork over; quick tier, N=4 only)
        pre += [row[0] > EPS for row in G[shape.get("lead", N):]]
    else:
        # an axis-aligned row (a,0,0,0) whose length a is symbolic and off by more than the 1e-5 tolerance of the assertion
        pre += [G[0][1] == 0, G[0][2] == 0, G[0][3] == 0, z3.Or(G[0][0] >= z3.RealVal("1001/1000"), z3.And(G[0][0] > EPS, G[0][0] <= z3.RealVal("999/1000")))]
    eng.assume_global(*pre)
    proxy = NPProxy()

    class Inert:
        def __init__(self, *a, **k):
            pass

    def body():
        with bound(RO, np=proxy, print=noprint, HalfRotobjVoronoi=Inert, RotobjVoronoi=Inert), bound(U, np=proxy, print=noprint):
            class SymGrid(RO.SphereGrid4Dim):
                algorithm_name = "cube4D"

                def _gen_grid(self):
                    self.grid = sarr([[SR(x) for x in row] for row in G])
                    return super()._gen_grid()
            if shape.get("history"):
                # another grid object with 2N rows (a direction grid, arbitrary signs) is asked for its "upper" rows first
                rows3 = np.array([[(-1.0) ** (i + 1) * 0.6, 0.0, 0.8] for i in range(2 * N)])

                class Dir(RO.SphereGrid3Dim):
                    algorithm_name = "ico"

                    def _gen_grid(self):
                        return rows3.copy()
                d3 = Dir(N=2 * N)
                d3.gen_grid()
                d3.get_grid_as_array(only_upper=True)
            g = SymGrid(N=N)
            g.gen_grid()
            if shape.get("history"):
                # ... and the caller asks the helper for canonical representatives of the double-cover array it got from the grid
                U.hemisphere_quaternion_set(g.get_grid_as_array(only_upper=False))
                U.hemisphere_quaternion_set(g.get_grid_as_array(only_upper=False), upper=False)
            return g.get_grid_as_array(only_upper=False), g.get_grid_as_array(), g.get_upper_indices(), g.get_N(), type(g.get_spherical_voronoi()).__name__

    for path in eng.explore(body):
        acc.begin(prover, path)
        if acc.reachable is not True:
            acc.reach(prover.satisfiable(path.premises))
        if path.kind == "exc":
            ok = (not unit) and isinstance(path.value, AssertionError)
            acc.structural("non_unit_rows_are_rejected_by_the_norm_assertion" if not unit else "no_exception", ok,
                           detail=repr(path.value) + (path.tb or "")[-500:], cex={"kind": "exception", "exc": type(path.value).__name__})
            continue
        if not unit:
            acc.structural("non_unit_rows_are_rejected_by_the_norm_assertion", False, detail="a row of squared norm >= 1.001 passed gen_grid", cex={})
            continue
        full, half, upi, n_, vor = path.value
        acc.structural("shapes", tuple(np.shape(full)) == (2 * N, 4) and tuple(np.shape(half)) == (N, 4) and n_ == N, detail=(np.shape(full), np.shape(half), n_))
        acc.structural("upper_indices_are_the_first_N", list(upi) == list(range(N)), detail=list(upi))
        if tuple(np.shape(full)) != (2 * N, 4) or tuple(np.shape(half)) != (N, 4):
            continue
        claims = []
        for i in range(N):
            for k in range(4):
                claims.append((f"first_half_is_G[{i},{k}]", z(full[i, k]) == G[i][k]))
                claims.append((f"second_half_is_minus_G[{i},{k}]", z(full[N + i, k]) == -G[i][k]))
                claims.append((f"only_upper_returns_G[{i},{k}]", z(half[i, k]) == G[i][k]))
        acc.add(prover.prove_all(path.premises, claims), make_cex=lambda r: {})
    return acc.result(eng.stats, prover.stats)


# ------------------------------------------------------------------------------------------ replay on the real code
def _canon_f(q):
    for x in q:
        if x > 0:
            return True
        if x < 0:
            return False
    return False


def replay(cex):
    import contextlib, io
    import molgri.space.utils as U
    import molgri.space.rotobj as RO
    s = cex["shape"]
    model = cex.get("model", {}) or {}
    rng = np.random.default_rng(3)
    bad = []
    if s["kind"] == "fulldiv":
        class Counter:
            def __init__(self):
                self.divides = 0

            def divide_edges(self):
                self.divides += 1
        old = RO.Cube4DPolytope
        RO.Cube4DPolytope = Counter
        try:
            for N, lvl in ((8, 0), (40, 1), (272, 2), (2080, 3)):
                try:
                    g = RO.FullDivCube4DRotations(N=N)
                    if g.polytope.divides != lvl:
                        bad.append(f"fulldiv N={N}: {g.polytope.divides} subdivisions instead of {lvl}")
                except Exception as e:  # noqa: BLE001
                    bad.append(f"fulldiv N={N} (admissible) raised {e!r}")
            for N in [int(model.get("N", 9))] + [1, 7, 9, 41, 273]:
                if N in (8, 40, 272, 2080):
                    continue
                try:
                    RO.FullDivCube4DRotations(N=N)
                    bad.append(f"fulldiv N={N} accepted")
                except ValueError:
                    pass
                except Exception as e:  # noqa: BLE001
                    bad.append(f"fulldiv N={N} raised {e!r}")
        finally:
            RO.Cube4DPolytope = old
        return {"reproduced": bool(bad), "detail": str(bad[:3])}
    if s["kind"] == "upper":
        tests = [np.array([fval(model, f"q{k}", 0.0) for k in range(4)])] + [np.array(v, dtype=float) for v in itertools.product((-0.5, 0.0, 0.5), repeat=4)]
        for q in tests:
            if bool(U.q_in_upper_sphere(q)) != _canon_f(q):
                bad.append(f"q_in_upper_sphere({q.tolist()})")
            if np.any(q != 0) and bool(U.q_in_upper_sphere(q)) == bool(U.q_in_upper_sphere(-q)):
                bad.append(f"q and -q in the same half: {q.tolist()}")
            if not np.array_equal(U.find_inverse_quaternion(q), -q):
                bad.append("find_inverse_quaternion")
        return {"reproduced": bool(bad), "detail": str(bad[:4])}
    if s["kind"] == "hemi":
        N = s["N"]
        sets = [np.array([[fval(model, f"q{i}_{k}", float(rng.choice([-0.5, 0.0, 0.5, 0.7]))) for k in range(4)] for i in range(N)])]
        sets += [np.array(v, dtype=float).reshape(N, 4) for v in itertools.islice(itertools.product((-0.5, 0.0, 0.5), repeat=4 * N), 0, 3 ** (4 * N), max(1, 3 ** (4 * N) // 400))]
        for Q in sets:
            if np.any(np.all(Q == 0, axis=1)):
                continue
            given = np.array(Q, dtype=float)
            out = U.hemisphere_quaternion_set(given, upper=s["upper"])
            for i in range(N):
                exp = Q[i] if _canon_f(Q[i]) == s["upper"] else -Q[i]
                if out.shape != (N, 4) or not np.array_equal(out[i], exp):
                    bad.append(f"hemisphere_quaternion_set({Q.tolist()}, upper={s['upper']}) row {i}")
        return {"reproduced": bool(bad), "detail": str(bad[:3])}
    N = s["N"]
    G = np.array([[fval(model, f"g{i}_{k}", None) or 0.0 for k in range(4)] for i in range(N)])
    if not model:
        G = np.abs(rng.normal(size=(N, 4))) + 0.1
        G /= np.linalg.norm(G, axis=1)[:, None]
        if not s["unit"]:
            G = np.array([[1.01, 0.0, 0.0, 0.0]])

    class Inert:
        def __init__(self, *a, **k):
            pass

    class ConcGrid(RO.SphereGrid4Dim):
        algorithm_name = "cube4D"

        def _gen_grid(self):
            self.grid = G.copy()
            return super()._gen_grid()
    old = RO.HalfRotobjVoronoi
    RO.HalfRotobjVoronoi = Inert
    try:
        with contextlib.redirect_stdout(io.StringIO()):
            if s.get("history"):
                rows3 = np.array([[(-1.0) ** (i + 1) * 0.6, 0.0, 0.8] for i in range(2 * N)])

                class Dir(RO.SphereGrid3Dim):
                    algorithm_name = "ico"

                    def _gen_grid(self):
                        return rows3.copy()
                oldf = RO.RotobjVoronoi
                RO.RotobjVoronoi = Inert
                try:
                    d3 = Dir(N=2 * N)
                    d3.gen_grid()
                    d3.get_grid_as_array(only_upper=True)
                finally:
                    RO.RotobjVoronoi = oldf
            g = ConcGrid(N=N)
            try:
                g.gen_grid()
            except AssertionError as e:
                return {"reproduced": s["unit"], "detail": f"gen_grid raised AssertionError {e} for rows of norm {np.linalg.norm(G, axis=1).tolist()}"}
            if not s["unit"]:
                return {"reproduced": True, "detail": "non-unit row accepted"}
            if s.get("history"):
                U.hemisphere_quaternion_set(g.get_grid_as_array(only_upper=False))
                U.hemisphere_quaternion_set(g.get_grid_as_array(only_upper=False), upper=False)
            full, half = g.get_grid_as_array(only_upper=False), g.get_grid_as_array()
            if full.shape != (2 * N, 4) or not np.array_equal(full[:N], G) or not np.array_equal(full[N:], -G):
                bad.append("full array is not [G; -G]")
            if half.shape != (N, 4) or not np.array_equal(half, G):
                bad.append("only_upper does not return G")
            if list(g.get_upper_indices()) != list(range(N)) or g.get_N() != N:
                bad.append("upper indices / N")
    finally:
        RO.HalfRotobjVoronoi = old
    return {"reproduced": bool(bad), "detail": str(bad)}


def finding_key(cex):
    return f"C07:{cex['shape']['kind']}{':history' if cex['shape'].get('history') else ''}:{cex['obligation'].split('[')[0]}"


def generator_contract():
    """The `double` shapes stand on a contract for the concrete generators ("the generator installs N canonical unit rows"); the generators
    themselves are concrete runs with nothing to quantify over (outside the claim).  The contract is re-checked here on a few small real
    grids on every run; a generator that breaks it makes the run a HARNESS ERROR (exit 2) -- the symbolic result would rest on a false
    assumption -- not a verdict of the solver."""
    import contextlib, io
    import molgri.space.rotobj as RO
    n = 0
    with contextlib.redirect_stdout(io.StringIO()):
        for alg, Ns in (("cube4D", (4, 9, 17, 40)), ("randomQ", (5, 20)), ("fulldiv", (8, 40)), ("zero4D", (1,))):
            for N in Ns:
                g = RO.SphereGrid4DFactory.create(alg, N)
                half, full = g.get_grid_as_array(), g.get_grid_as_array(only_upper=False)
                assert half.shape == (N, 4) and full.shape == (2 * N, 4), (alg, N, "shapes")
                assert all(_canon_f(list(row)) for row in half), (alg, N, "a row of the half grid is not in the canonical half")
                assert np.array_equal(full[:N], half) and np.array_equal(full[N:], -half), (alg, N, "the double cover is not [G; -G]")
                assert np.allclose(np.linalg.norm(half, axis=1), 1.0, atol=1e-8), (alg, N, "rows are not unit quaternions")
                assert len({tuple(np.round(r, 9)) for r in half}) == N, (alg, N, "rows are not pairwise distinct")
                n += 1
    return n


def selftest(seed):
    n = generator_contract()
    for v in itertools.product((-1.0, 0.0, 1.0), repeat=3):
        s = z3.Solver()
        q = [z3.RealVal(str(x)) for x in v]
        s.add(canonical(q) != z3.BoolVal(_canon_f(v)))
        assert s.check() == z3.unsat
        n += 1
    return n
