"""C07 -- (half selection and double-cover logic) rotations are unique: canonical half, one row per rotation, [G; -G] layout.

Real `q_in_upper_sphere`, `hemisphere_quaternion_set`, `find_inverse_quaternion`, `SphereGrid4Dim._gen_grid`,
`SphereGridNDim.gen_grid` (shape / norm assertions, cell-model threshold), `get_grid_as_array`, `get_upper_indices`,
`get_N` run on SYMBOLIC quaternion coordinates.  That the concrete generators return N distinct, well separated points is
a concrete run with nothing to quantify over: outside (DESIGN section 6).
"""
import itertools

import numpy as np
import z3

from symx.core import Engine, SR, SB, noprint
from symx.arr import sarr
from symx.npproxy import NPProxy
from symx.prove import Prover
from symx.runner import Acc
from harness.common import bound, z, fval

PROPERTY = "C07"
FUNCTIONS = ["molgri.space.rotobj.FullDivCube4DRotations.__init__ (size gate)", "molgri.space.utils.q_in_upper_sphere", "utils.hemisphere_quaternion_set", "utils.find_inverse_quaternion", "utils.is_array_with_d_dim_r_rows_c_columns",
             "molgri.space.rotobj.SphereGrid4Dim._gen_grid", "SphereGridNDim.gen_grid", "SphereGridNDim.get_grid_as_array", "SphereGrid4Dim.get_grid_as_array",
             "SphereGridNDim.get_upper_indices", "SphereGridNDim.get_N"]
STUBS = ["the generator: a subclass whose _gen_grid installs an arbitrary symbolic half grid and calls the real SphereGrid4Dim._gen_grid",
         "rotobj.HalfRotobjVoronoi (Qhull) -> inert object", "sqrt -> fresh variable r>=0, r^2=x"]
ASSUMPTIONS = ["every coordinate is 0 or |x| > 1e-5 (true for lattice projections; it keeps the np.allclose tolerance band out: a coordinate in (0,1e-8] "
               "makes q and -q both 'upper', which no generator can produce)", "float modelled by the reals"]
FUNCTIONS += ["molgri.space.polytopes.Cube4DPolytope.get_half_of_hypercube", "utils.which_row_is_k", "rotobj.FullDivCube4DRotations._gen_grid", "rotobj.Cube4DRotations._gen_grid"]
STUBS += ["`halfsel` shapes: Cube4DPolytope -> stand-in holding a given node array (8 antipodal pairs in a scrambled central-index order; the graph, "
          "its subdivision and the projection are a concrete run: outside) -- a real SUBCLASS of Cube4DPolytope: get_half_of_hypercube, _check_N ... are the package's own code",
          "`halfsel`: branch feasibility is first decided on the linear part of the path condition (sound for `infeasible`; a linear condition "
          "that is feasible there is taken as feasible); sqrt of a row's squared norm is 1 when the unit-norm assumptions alone imply it"]
OUTSIDE = ["that the polytope / random generators return N pairwise distinct, well separated unit points for every N (concrete run, DESIGN section 6)",
           "N beyond the bound"]
EPS = z3.RealVal("1/100000")


def bounds(tier):
    return {"single_quaternion": "all sign/zero structures", "hemisphere_quaternion_set": "N<=2 (thorough 3) arbitrary quaternions, both `upper` values",
            "fulldiv_size_gate": "N in {8, 40, 272, 2080} each as a case; every other integer N >= 1 symbolic",
            "half_selection": "16 nodes = 8 antipodal pairs: 6 concrete (projected hypercube vertices), 2 symbolic unit quaternions with 0..3 leading zeros each "
                              "(all 15 combinations for fulldiv, N = 8 of 8; 6 (thorough 15) for cube4D, N = 5 of 8; thorough: three node orders); leading non-zero coordinate of a symbolic node "
                              "more than 1e-3 away from 0 and from +-1/2",
            "one_point_grids": "zero3D / zero4D through the factory with N in {None, 1, 2, 3} (concrete runs judged by the statement)",
            "double_cover": "N in 1..4 canonical unit rows, all sign structures (N = 4: with branch feasibility decided on the linear relaxation); plus an axis-aligned row of symbolic length off 1 by > 1e-3 (assertion)"}


def shapes(tier, seed):
    out = [{"kind": "upper"}]
    for N in ((1, 2) if tier == "quick" else (1, 2, 3)):
        for upper in (True, False):
            out.append({"kind": "hemi", "N": N, "upper": upper})
    for N in (1, 2, 3, 4):
        out.append({"kind": "double", "N": N, "unit": True, "lead": 2 if (N == 4 and tier == "quick") else N})
    out.append({"kind": "double", "N": 4, "unit": True, "lead": 4, "relax": True})      # all sign structures of four rows (branch feasibility on the linear relaxation)
    out.append({"kind": "double", "N": 1, "unit": False, "lead": 1})
    for N in (1, 2, 3):
        out.append({"kind": "double", "N": N, "unit": True, "lead": N, "history": True})
    for N in (8, 40, 272, 2080, "other"):
        out.append({"kind": "fulldiv", "N": N})
    # the two one-point grids asked for with an explicit N (the zero algorithms define N = 1 themselves)
    for dim in (3, 4):
        for N in (None, 1, 2, 3):
            out.append({"kind": "zero", "dim": dim, "N": N})
    # half selection of the hypercube algorithms on a polytope stand-in: two symbolic antipodal pairs among six concrete ones; (za, zb) =
    # number of leading zero coordinates of the two symbolic quaternions (the ties of the canonical-half test)
    for za in range(4):
        for zb in range(4):
            if (za, zb) == (3, 3):
                continue          # a = +-b = (0, 0, 0, +-1): not two different rotations
            out.append({"kind": "halfsel", "alg": "fulldiv", "za": za, "zb": zb})
            if tier == "thorough":
                out.append({"kind": "halfsel", "alg": "fulldiv", "za": za, "zb": zb, "order": 1})
                out.append({"kind": "halfsel", "alg": "fulldiv", "za": za, "zb": zb, "order": 2})
    for (za, zb) in ((0, 0), (0, 1), (1, 0), (1, 1), (2, 3), (3, 1)) if tier == "quick" else [(a, b) for a in range(4) for b in range(4) if (a, b) != (3, 3)]:
        out.append({"kind": "halfsel", "alg": "cube4D", "za": za, "zb": zb})
        if tier == "thorough" or (za, zb) in ((0, 1), (2, 3)):
            out.append({"kind": "halfsel", "alg": "cube4D", "za": za, "zb": zb, "order": 2})      # the symbolic nodes are among the first N
    return out


def generic(x):
    return z3.Or(x == 0, x > EPS, x < -EPS)


def canonical(q):
    """first non-zero coordinate positive (the statement's definition)"""
    c = z3.BoolVal(False)
    for i in reversed(range(len(q))):
        c = z3.If(q[i] > 0, True, z3.If(q[i] < 0, False, c))
    return c


def run_shape(shape):
    return {"upper": run_upper, "hemi": run_hemi, "double": run_double, "fulldiv": run_fulldiv, "halfsel": run_halfsel, "zero": run_zero}[shape["kind"]](shape)


def run_fulldiv(shape):
    """the size gate of the fulldiv algorithm: its four admissible N (each as a case) are accepted with 0,1,2,3 subdivisions, every
    OTHER integer N >= 1 (symbolic) is rejected with ValueError.  The polytope is a counter: subdividing is a concrete run (outside)."""
    import molgri.space.rotobj as RO
    eng = Engine()
    prover = Prover(timeout_ms=10000, budget_s=120)
    acc = Acc(shape)
    admissible = (8, 40, 272, 2080)
    nsym = z3.Int("N")
    eng.assume_global(nsym >= 1, *[nsym != a for a in admissible])

    class Counter:
        def __init__(self):
            self.divides = 0

        def divide_edges(self):
            self.divides += 1

    def body():
        with bound(RO, Cube4DPolytope=Counter, print=noprint):
            g = RO.FullDivCube4DRotations(N=shape["N"] if shape["N"] != "other" else SR(z3.ToReal(nsym)))
            return g.polytope.divides, g.N

    for path in eng.explore(body):
        acc.begin(prover, path)
        if acc.reachable is not True:
            acc.reach(prover.satisfiable(path.premises))
        if shape["N"] == "other":
            acc.structural("other_sizes_rejected_with_ValueError", path.kind == "exc" and isinstance(path.value, ValueError), detail=repr(path.value), cex={"N": "other", "model": _model_n(path)})
        else:
            ok = path.kind == "ok" and path.value[0] == admissible.index(shape["N"]) and path.value[1] == shape["N"]
            acc.structural("admissible_size_accepted_with_its_subdivision_level", ok, detail=repr(path.value), cex={"N": shape["N"]})
    return acc.result(eng.stats, prover.stats)


def _model_n(path):
    s_ = z3.Solver()
    s_.add(*path.premises)
    return {"N": str(s_.model()[z3.Int("N")])} if s_.check() == z3.sat else {}


def run_upper(shape):
    import molgri.space.utils as U
    q = [z3.Real(f"q{k}") for k in range(4)]
    eng = Engine()
    prover = Prover(timeout_ms=10000, budget_s=300)
    acc = Acc(shape)
    eng.assume_global(*[generic(x) for x in q])
    proxy = NPProxy()

    def body():
        with bound(U, np=proxy, print=noprint):
            a = sarr([SR(x) for x in q])
            return U.q_in_upper_sphere(a), U.q_in_upper_sphere(-a), U.find_inverse_quaternion(a)

    for path in eng.explore(body):
        acc.begin(prover, path)
        if path.kind == "exc":
            acc.structural("no_exception", False, detail=repr(path.value) + (path.tb or "")[-500:], cex={"kind": "exception", "exc": type(path.value).__name__})
            continue
        if acc.reachable is not True:
            acc.reach(prover.satisfiable(path.premises))
        up, upneg, inv = path.value
        nz = z3.Or([x != 0 for x in q])
        claims = [("upper_iff_first_nonzero_positive", z3.BoolVal(bool(up)) == canonical(q)),
                  ("exactly_one_of_q_and_minus_q", z3.Implies(nz, z3.BoolVal(bool(up)) != z3.BoolVal(bool(upneg)))),
                  ("zero_vector_is_lower", z3.Implies(z3.Not(nz), z3.BoolVal(not bool(up))))]
        claims += [(f"inverse_is_negation[{k}]", z(inv[k]) == -q[k]) for k in range(4)]
        acc.add(prover.prove_all(path.premises, claims), make_cex=lambda r: {})
    return acc.result(eng.stats, prover.stats)


def run_hemi(shape):
    import molgri.space.utils as U
    N, upper = shape["N"], shape["upper"]
    Q = [[z3.Real(f"q{i}_{k}") for k in range(4)] for i in range(N)]
    eng = Engine()
    prover = Prover(timeout_ms=10000, budget_s=600)
    acc = Acc(shape)
    eng.assume_global(*[generic(x) for row in Q for x in row], *[z3.Or([x != 0 for x in row]) for row in Q])
    proxy = NPProxy()

    def body():
        with bound(U, np=proxy, print=noprint):
            given = sarr([[SR(x) for x in row] for row in Q])      # a float array owned by the caller
            out = U.hemisphere_quaternion_set(given, upper=upper)
            return out, given

    for path in eng.explore(body):
        acc.begin(prover, path)
        if path.kind == "exc":
            acc.structural("no_exception", False, detail=repr(path.value) + (path.tb or "")[-500:], cex={"kind": "exception", "exc": type(path.value).__name__})
            continue
        if acc.reachable is not True:
            acc.reach(prover.satisfiable(path.premises))
        out, given = path.value
        acc.structural("shape", tuple(np.shape(out)) == (N, 4) and tuple(np.shape(given)) == (N, 4), detail=np.shape(out))
        if tuple(np.shape(out)) != (N, 4) or tuple(np.shape(given)) != (N, 4):
            continue
        # (that the caller's array comes back untouched is NOT demanded here: C07 speaks about grids; what an in-place helper does to a grid
        # that hands out its own array is the history of the `double` shapes)
        claims = []
        for i in range(N):
            row = [z(out[i, k]) for k in range(4)]
            want_canon = canonical(Q[i]) if upper else z3.Not(canonical(Q[i]))
            for k in range(4):
                claims.append((f"row_is_plus_or_minus_q[{i},{k}]", row[k] == z3.If(want_canon, Q[i][k], -Q[i][k])))
            claims.append((f"row_in_requested_half[{i}]", canonical(row) == z3.BoolVal(upper)))
        acc.add(prover.prove_all(path.premises, claims), make_cex=lambda r: {})
    return acc.result(eng.stats, prover.stats)


def run_double(shape):
    import molgri.space.rotobj as RO
    import molgri.space.utils as U
    N, unit = shape["N"], shape["unit"]
    G = [[z3.Real(f"g{i}_{k}") for k in range(4)] for i in range(N)]
    eng = Engine()
    prover = Prover(timeout_ms=10000, budget_s=600)
    acc = Acc(shape)
    pre = [generic(x) for row in G for x in row] + [canonical(row) for row in G]
    if unit:
        pre += [z3.Sum([x * x for x in row]) == 1 for row in G]
        # rows beyond `lead` have a positive first coordinate (fewer sign structures to fork over; quick tier, N=4 only)
        pre += [row[0] > EPS for row in G[shape.get("lead", N):]]
    else:
        # an axis-aligned row (a,0,0,0) whose length a is symbolic and off by more than the 1e-5 tolerance of the assertion
        pre += [G[0][1] == 0, G[0][2] == 0, G[0][3] == 0, z3.Or(G[0][0] >= z3.RealVal("1001/1000"), z3.And(G[0][0] > EPS, G[0][0] <= z3.RealVal("999/1000")))]
    if unit and shape.get("relax"):
        # as in the half-selection shapes: linear part of the path condition first, |x| <= 1 stated, unit-norm roots as constants
        pre += [z3.And(x >= -1, x <= 1) for row in G for x in row]
        eng.relax_nonlinear = eng.trust_relaxation = eng.sqrt_known_constants = True
    eng.assume_global(*pre)
    proxy = NPProxy()

    class Inert:
        def __init__(self, *a, **k):
            pass

    def body():
        with bound(RO, np=proxy, print=noprint, HalfRotobjVoronoi=Inert, RotobjVoronoi=Inert), bound(U, np=proxy, print=noprint):
            class SymGrid(RO.SphereGrid4Dim):
                algorithm_name = "cube4D"

                def _gen_grid(self):
                    self.grid = sarr([[SR(x) for x in row] for row in G])
                    return super()._gen_grid()
            if shape.get("history"):
                # another grid object with 2N rows (a direction grid, arbitrary signs) is asked for its "upper" rows first
                rows3 = np.array([[(-1.0) ** (i + 1) * 0.6, 0.0, 0.8] for i in range(2 * N)])

                class Dir(RO.SphereGrid3Dim):
                    algorithm_name = "ico"

                    def _gen_grid(self):
                        return rows3.copy()
                d3 = Dir(N=2 * N)
                d3.gen_grid()
                d3.get_grid_as_array(only_upper=True)
            g = SymGrid(N=N)
            g.gen_grid()
            if shape.get("history"):
                # ... and the caller asks the helper for canonical representatives of the double-cover array it got from the grid
                U.hemisphere_quaternion_set(g.get_grid_as_array(only_upper=False))
                U.hemisphere_quaternion_set(g.get_grid_as_array(only_upper=False), upper=False)
            return g.get_grid_as_array(only_upper=False), g.get_grid_as_array(), g.get_upper_indices(), g.get_N(), type(g.get_spherical_voronoi()).__name__

    for path in eng.explore(body):
        acc.begin(prover, path)
        if acc.reachable is not True:
            acc.reach(prover.satisfiable(path.premises))
        if path.kind == "exc":
            ok = (not unit) and isinstance(path.value, AssertionError)
            acc.structural("non_unit_rows_are_rejected_by_the_norm_assertion" if not unit else "no_exception", ok,
                           detail=repr(path.value) + (path.tb or "")[-500:], cex={"kind": "exception", "exc": type(path.value).__name__})
            continue
        if not unit:
            acc.structural("non_unit_rows_are_rejected_by_the_norm_assertion", False, detail="a row of squared norm >= 1.001 passed gen_grid", cex={})
            continue
        full, half, upi, n_, vor = path.value
        acc.structural("shapes", tuple(np.shape(full)) == (2 * N, 4) and tuple(np.shape(half)) == (N, 4) and n_ == N, detail=(np.shape(full), np.shape(half), n_))
        acc.structural("upper_indices_are_the_first_N", list(upi) == list(range(N)), detail=list(upi))
        if tuple(np.shape(full)) != (2 * N, 4) or tuple(np.shape(half)) != (N, 4):
            continue
        claims = []
        for i in range(N):
            for k in range(4):
                claims.append((f"first_half_is_G[{i},{k}]", z(full[i, k]) == G[i][k]))
                claims.append((f"second_half_is_minus_G[{i},{k}]", z(full[N + i, k]) == -G[i][k]))
                claims.append((f"only_upper_returns_G[{i},{k}]", z(half[i, k]) == G[i][k]))
        acc.add(prover.prove_all(path.premises, claims), make_cex=lambda r: {})
    return acc.result(eng.stats, prover.stats)



# ------------------------------------------------------------------------------------------ half selection of the hypercube algorithms
# six concrete antipodal pairs (vertices of the hypercube, projected) ...
_V = [(1, 1, 1, 1), (1, 1, -1, 1), (1, -1, 1, -1), (1, -1, -1, 1), (1, 1, 1, -1), (1, -1, 1, 1)]
HS_CONCRETE = [[0.5 * c for c in v] for v in _V]
# ... and the order of the 16 nodes (central index): pairs 0..5 concrete, 6 = a, 7 = b; sign +1 / -1.  Partners are neither adjacent nor
# in a regular pattern, and the canonical member of a pair comes first for some pairs and second for others
HS_ORDER = [(0, -1), (6, 1), (1, 1), (7, -1), (2, -1), (0, 1), (3, 1), (6, -1), (4, -1), (1, -1), (5, 1), (7, 1), (2, 1), (3, -1), (5, -1), (4, 1)]
HS_SEP = z3.RealVal("1/1000")


def _hs_nodes(a, b, num, order=0):
    """order 0: HS_ORDER; 1: reversed; 2: the two symbolic pairs first, partners adjacent (a, -a, -b, b, ...)"""
    pairs = [[num(c) for c in v] for v in HS_CONCRETE] + [list(a), list(b)]
    seq = {0: HS_ORDER, 1: HS_ORDER[::-1], 2: [(6, 1), (6, -1), (7, -1), (7, 1)] + [x for x in HS_ORDER if x[0] < 6]}[order]
    return [[sgn * x for x in pairs[j]] for (j, sgn) in seq], pairs


def _hs_premises(a, b, za, zb):
    """polytope contract for the node set: closed under negation (by construction), unit rows, every coordinate 0 or clear of the
    tolerance band, the stated leading zeros, and any two different nodes differ by more than 1e-3 in some coordinate: the leading
    non-zero coordinate of a symbolic node is more than 1e-3 away from 0 and from +-1/2 (every coordinate of the concrete nodes is +-1/2),
    and a, b differ from each other and from each other's negative"""
    pre = []
    half = z3.RealVal("1/2")
    for q, zq in ((a, za), (b, zb)):
        lead = q[zq]
        pre += [q[k] == 0 for k in range(zq)] + [generic(x) for x in q[zq + 1:]]
        pre.append(z3.Or(lead > half + HS_SEP, z3.And(lead > HS_SEP, lead < half - HS_SEP), z3.And(lead < -HS_SEP, lead > -half + HS_SEP), lead < -half - HS_SEP))
        pre.append(z3.Sum([x * x for x in q]) == 1)
        pre += [z3.And(x >= -1, x <= 1) for x in q]      # implied by the unit norm; stated so that the linear part of a query knows it

    def apart(u, v):
        return z3.Or([z3.Or(u[k] - v[k] > HS_SEP, v[k] - u[k] > HS_SEP) for k in range(4)])
    if za == zb:
        pre += [apart(a, b), apart(a, [-x for x in b])]
    return pre


class _GraphStub:
    """what is left of the networkx graph in the stand-in: the number of nodes"""
    def __init__(self, n):
        self.n = n

    def number_of_nodes(self):
        return self.n

    def __len__(self):
        return self.n


def _hs_poly_class(P, nodes):
    """stand-in for Cube4DPolytope at one subdivision level: a REAL subclass (every method of the class and its base is the package's
    own code -- get_half_of_hypercube, _check_N, ...); only the graph construction, the subdivision and the node getter are replaced:
    the node array (central-index order) is given"""
    class HSPoly(P.Cube4DPolytope):
        def __init__(self):
            self.d = 4
            self.current_level = 0
            self.side_len = 1.0
            self.divides = 0
            self.G = _GraphStub(len(nodes))

        def divide_edges(self):
            self.divides += 1
            if self.divides > 3:
                raise RuntimeError("stand-in polytope subdivided more than three times")

        def get_nodes(self, N=None, projection=False):
            arr = nodes.copy()
            return arr if N is None else arr[:N]
    return HSPoly


def _hs_standin_artefact(exc):
    """an exception that comes from what the stand-in does not have (not from the code under test) is a harness error, never a verdict"""
    return isinstance(exc, AttributeError) and any(w in str(exc) for w in ("_GraphStub", "HSPoly"))


def _hs_build(RO, alg):
    if alg == "fulldiv":
        return RO.FullDivCube4DRotations(N=8)
    return RO.Cube4DRotations(N=5)


def run_halfsel(shape):
    """The hypercube algorithms take their N rotations from `Cube4DPolytope.get_half_of_hypercube` (canonical-hemisphere test per node,
    row search, central-index order, first N).  Here the REAL FullDivCube4DRotations / Cube4DRotations `_gen_grid`, the REAL
    get_half_of_hypercube, q_in_upper_sphere, which_row_is_k, SphereGrid4Dim._gen_grid and gen_grid run on a polytope whose 16 nodes are 8
    antipodal pairs in a scrambled order: six concrete, two SYMBOLIC unit quaternions a, b with za / zb leading zeros (ties of the
    hemisphere test) -- every value of the remaining coordinates at once.  fulldiv: N = 8 of 8 pairs; cube4D: N = 5 of 8."""
    import molgri.space.rotobj as RO
    import molgri.space.utils as U
    import molgri.space.polytopes as P
    alg, za, zb = shape["alg"], shape["za"], shape["zb"]
    a = [z3.Real(f"a{k}") for k in range(4)]
    b = [z3.Real(f"b{k}") for k in range(4)]
    N = 8 if alg == "fulldiv" else 5
    eng = Engine()
    eng.decide_timeout_ms = 3000
    eng.relax_nonlinear = True
    eng.trust_relaxation = True
    eng.sqrt_known_constants = True
    prover = Prover(timeout_ms=10000, budget_s=300)
    acc = Acc(shape)
    eng.assume_global(*_hs_premises(a, b, za, zb))
    proxy = NPProxy()

    class Inert:
        def __init__(self, *a_, **k):
            pass

    def body():
        rows, _ = _hs_nodes([SR(x) for x in a], [SR(x) for x in b], float, shape.get("order", 0))
        poly = _hs_poly_class(P, sarr(rows))
        with bound(RO, np=proxy, print=noprint, HalfRotobjVoronoi=Inert, RotobjVoronoi=Inert, Cube4DPolytope=poly), bound(U, np=proxy, print=noprint), \
                bound(P, np=proxy, print=noprint):
            g = _hs_build(RO, alg)
            g.gen_grid()
            return g.get_grid_as_array(only_upper=False), g.get_grid_as_array(), g.get_N()

    nodes_z, pairs_z = _hs_nodes(a, b, lambda c: z3.RealVal(str(c)), shape.get("order", 0))
    for path in eng.explore(body):
        acc.begin(prover, path)
        if acc.reachable is not True:
            acc.reach(prover.satisfiable(path.premises))
        cexinfo = lambda: {"model": _hs_model(path)}      # noqa: E731
        if path.kind == "exc":
            if _hs_standin_artefact(path.value):
                from symx.core import Unsupported
                raise Unsupported(f"the polytope stand-in lacks what the code asks for: {path.value!r}")
            acc.structural("no_exception", False, detail=repr(path.value) + (path.tb or "")[-500:], cex=dict(cexinfo(), kind="exception", exc=type(path.value).__name__))
            continue
        full, half, n_ = path.value
        ok = tuple(np.shape(full)) == (2 * N, 4) and tuple(np.shape(half)) == (N, 4) and n_ == N
        acc.structural("shapes", ok, detail=(np.shape(full), np.shape(half), n_), cex=None if ok else cexinfo())
        if not ok:
            continue
        rows = [[z(half[i, k]) for k in range(4)] for i in range(N)]
        eq = lambda u, v, sg=1: z3.And([u[k] == sg * v[k] for k in range(4)])      # noqa: E731
        claims = []
        for i in range(N):
            claims.append((f"row_in_canonical_half[{i}]", canonical(rows[i])))
            claims.append((f"row_is_a_node_of_the_polytope[{i}]", z3.Or([z3.Or(eq(rows[i], pq), eq(rows[i], pq, -1)) for pq in pairs_z])))
            for j in range(i):
                claims.append((f"rows_are_different_rotations[{j},{i}]", z3.Not(z3.Or(eq(rows[i], rows[j]), eq(rows[i], rows[j], -1)))))
            for k in range(4):
                claims.append((f"first_half_of_double_cover_is_G[{i},{k}]", z(full[i, k]) == rows[i][k]))
                claims.append((f"second_half_is_minus_G[{i},{k}]", z(full[N + i, k]) == -rows[i][k]))
        if alg == "fulldiv":
            for j, pq in enumerate(pairs_z):
                claims.append((f"every_rotation_of_the_level_is_present[{j}]", z3.Or([z3.Or(eq(r_, pq), eq(r_, pq, -1)) for r_ in rows])))
        # every claim is linear in a, b once the path has fixed which node is which row: the linear part of the premises is tried first
        acc.add(prover.prove_all(path.premises, claims, slice_=[p_ for p_ in path.premises if eng._is_linear(p_)]), make_cex=lambda r_: cexinfo())
    return acc.result(eng.stats, prover.stats)


def _hs_model(path):
    s_ = z3.Solver()
    s_.set("timeout", 5000)
    s_.add(*path.premises)
    if s_.check() != z3.sat:
        return {}
    from symx.prove import model_to_dict
    return {k: (str(v) if not isinstance(v, bool) else v) for k, v in model_to_dict(s_.model()).items()}


def _hs_candidates(shape, model, rng):
    """concrete (a, b) for the replay: the solver's model first, then generic and tie-rich members of the shape's family"""
    za, zb = shape["za"], shape["zb"]
    out = []
    am = [fval(model, f"a{k}", None) for k in range(4)]
    bm = [fval(model, f"b{k}", None) for k in range(4)]
    if all(x is not None for x in am + bm):
        out.append((np.array(am, dtype=float), np.array(bm, dtype=float)))
    for _ in range(40):
        pair = []
        for zq in (za, zb):
            v = rng.choice([-0.9, -0.6, -0.3, 0.0, 0.2, 0.45, 0.8], size=4) + rng.normal(scale=0.01, size=4) * (rng.random(4) < 0.7)
            v[:zq] = 0.0
            if abs(v[zq]) < 1e-3:
                v[zq] = rng.choice([-0.7, 0.7])
            v[np.abs(v) < 2e-5] = 0.0
            pair.append(v / np.linalg.norm(v))
        out.append(tuple(pair))
    return out


def replay_halfsel(cex):
    import contextlib, io
    import molgri.space.rotobj as RO
    import molgri.space.polytopes as P
    s = cex["shape"]
    model = cex.get("model", {}) or {}
    rng = np.random.default_rng(5)
    N = 8 if s["alg"] == "fulldiv" else 5
    bad = []

    class Inert:
        def __init__(self, *a_, **k):
            pass
    for a, b in _hs_candidates(s, model, rng):
        rows, pairs = _hs_nodes(list(a), list(b), float, s.get("order", 0))
        nodes = np.array(rows, dtype=float)
        allp = np.array(pairs, dtype=float)
        d = np.abs(nodes[:, None, :] - nodes[None, :, :]).max(axis=2) + np.eye(16)
        if d.min() <= 1e-3 or np.any((np.abs(nodes) > 0) & (np.abs(nodes) <= 1e-5)) or not np.allclose(np.linalg.norm(nodes, axis=1), 1.0, atol=1e-9):
            continue          # outside the stated node contract
        old = (RO.HalfRotobjVoronoi, RO.Cube4DPolytope)
        RO.HalfRotobjVoronoi, RO.Cube4DPolytope = Inert, _hs_poly_class(P, nodes)
        try:
            with contextlib.redirect_stdout(io.StringIO()):
                g = _hs_build(RO, s["alg"])
                g.gen_grid()
                full, half = np.asarray(g.get_grid_as_array(only_upper=False), dtype=float), np.asarray(g.get_grid_as_array(), dtype=float)
        except Exception as e:  # noqa: BLE001
            if _hs_standin_artefact(e):
                return {"reproduced": False, "detail": f"the polytope stand-in lacks what the code asks for: {e!r}"}
            return {"reproduced": True, "detail": f"a={a.tolist()} b={b.tolist()}: raised {e!r}"}
        finally:
            RO.HalfRotobjVoronoi, RO.Cube4DPolytope = old
        what = []
        if full.shape != (2 * N, 4) or half.shape != (N, 4):
            what.append(f"shapes {full.shape} {half.shape}")
        else:
            if not all(_canon_f(list(r)) for r in half):
                what.append("a row outside the canonical half")
            owner = []
            for r in half:
                hit = [j for j in range(8) if np.array_equal(r, allp[j]) or np.array_equal(r, -allp[j])]
                owner.append(hit[0] if hit else None)
            if any(o is None for o in owner):
                what.append("a row that is no node of the polytope")
            elif len(set(owner)) != N:
                what.append(f"two rows for one rotation (pairs {owner})")
            if not np.array_equal(full[:N], half) or not np.array_equal(full[N:], -half):
                what.append("the double cover is not [G; -G]")
        if what:
            bad.append(f"a={a.tolist()} b={b.tolist()}: {what}")
    return {"reproduced": bool(bad), "detail": str(bad[:2])}


# ------------------------------------------------------------------------------------------ the one-point grids
def _zero_facts(RO, dim, N):
    """the zero grid of one dimension asked for with N through the factory; returns what the statement speaks about, or the exception"""
    import contextlib, io
    with contextlib.redirect_stdout(io.StringIO()):
        g = RO.SphereGridFactory.create("zero3D" if dim == 3 else "zero4D", N, dimensions=dim)
        half = np.asarray(g.get_grid_as_array(only_upper=True) if dim == 4 else g.get_grid_as_array(), dtype=float)
        full = np.asarray(g.get_grid_as_array(only_upper=False), dtype=float) if dim == 4 else None
        n_ = g.get_N()
    return half, full, n_


def _zero_problems(dim, half, full, n_):
    what = []
    if half.ndim != 2 or half.shape[1] != dim or len(half) != n_:
        what.append(f"{len(half)} rows of width {half.shape[1:]} for get_N() = {n_}")
        return what
    for i in range(len(half)):
        for j in range(i):
            if np.allclose(half[i], half[j]) or (dim == 4 and np.allclose(half[i], -half[j])):
                what.append(f"rows {j} and {i} are the same {'rotation' if dim == 4 else 'point'} {half[i].tolist()}")
    if not np.allclose(np.linalg.norm(half, axis=1), 1.0):
        what.append("a row is not a unit vector")
    if n_ == 1 and not np.allclose(half[0], [0, 0, 1] if dim == 3 else [0, 0, 0, 1]):
        what.append(f"the one-point grid is {half[0].tolist()}, not the z direction / the identity rotation")
    if dim == 4 and (full.shape != (2 * n_, 4) or not np.array_equal(full[:n_], half) or not np.array_equal(full[n_:], -half)):
        what.append("the double cover is not [G; -G]")
    return what


def run_zero(shape):
    """The one-point grids have no symbolic input: the real factory / constructor / gen_grid run concretely for N in {None, 1, 2, 3} and the
    result is judged by the statement (rows pairwise different rotations / points, unit, count = get_N(), [G; -G]; the identity rotation or
    the z direction for one point).  Whether an explicit N > 1 is refused, coerced to 1 or honoured is not C07's matter -- a returned grid
    with repeated rows is."""
    import molgri.space.rotobj as RO
    eng = Engine()
    prover = Prover(timeout_ms=5000, budget_s=60)
    acc = Acc(shape)

    def body():
        return _zero_facts(RO, shape["dim"], shape["N"])

    for path in eng.explore(body):
        acc.begin(prover, path)
        acc.reach("sat")
        if path.kind == "exc":
            ok = isinstance(path.value, (ValueError, AssertionError)) and shape["N"] not in (None, 1)
            acc.structural("one_point_grid_is_generated", ok, detail=repr(path.value), cex={"kind": "exception"})
            continue
        what = _zero_problems(shape["dim"], *path.value)
        acc.structural("rows_are_distinct_unit_points_and_the_double_cover_is_G_minus_G", not what, detail=what, cex={})
    return acc.result(eng.stats, prover.stats)


def replay_zero(cex):
    import molgri.space.rotobj as RO
    s = cex["shape"]
    try:
        facts = _zero_facts(RO, s["dim"], s["N"])
    except (ValueError, AssertionError) as e:
        return {"reproduced": s["N"] in (None, 1), "detail": f"zero grid, dimension {s['dim']}, N={s['N']}: raised {e!r}"}
    except Exception as e:  # noqa: BLE001
        return {"reproduced": True, "detail": f"zero grid, dimension {s['dim']}, N={s['N']}: raised {e!r}"}
    what = _zero_problems(s["dim"], *facts)
    return {"reproduced": bool(what), "detail": f"zero grid, dimension {s['dim']}, requested N={s['N']}: {what}"}

# ------------------------------------------------------------------------------------------ replay on the real code
def _canon_f(q):
    for x in q:
        if x > 0:
            return True
        if x < 0:
            return False
    return False


def replay(cex):
    import contextlib, io
    import molgri.space.utils as U
    import molgri.space.rotobj as RO
    s = cex["shape"]
    model = cex.get("model", {}) or {}
    rng = np.random.default_rng(3)
    bad = []
    if s["kind"] == "halfsel":
        return replay_halfsel(cex)
    if s["kind"] == "zero":
        return replay_zero(cex)
    if s["kind"] == "fulldiv":
        class Counter:
            def __init__(self):
                self.divides = 0

            def divide_edges(self):
                self.divides += 1
        old = RO.Cube4DPolytope
        RO.Cube4DPolytope = Counter
        try:
            for N, lvl in ((8, 0), (40, 1), (272, 2), (2080, 3)):
                try:
                    g = RO.FullDivCube4DRotations(N=N)
                    if g.polytope.divides != lvl:
                        bad.append(f"fulldiv N={N}: {g.polytope.divides} subdivisions instead of {lvl}")
                except Exception as e:  # noqa: BLE001
                    bad.append(f"fulldiv N={N} (admissible) raised {e!r}")
            for N in [int(model.get("N", 9))] + [1, 7, 9, 41, 273]:
                if N in (8, 40, 272, 2080):
                    continue
                try:
                    RO.FullDivCube4DRotations(N=N)
                    bad.append(f"fulldiv N={N} accepted")
                except ValueError:
                    pass
                except Exception as e:  # noqa: BLE001
                    bad.append(f"fulldiv N={N} raised {e!r}")
        finally:
            RO.Cube4DPolytope = old
        return {"reproduced": bool(bad), "detail": str(bad[:3])}
    if s["kind"] == "upper":
        tests = [np.array([fval(model, f"q{k}", 0.0) for k in range(4)])] + [np.array(v, dtype=float) for v in itertools.product((-0.5, 0.0, 0.5), repeat=4)]
        for q in tests:
            if bool(U.q_in_upper_sphere(q)) != _canon_f(q):
                bad.append(f"q_in_upper_sphere({q.tolist()})")
            if np.any(q != 0) and bool(U.q_in_upper_sphere(q)) == bool(U.q_in_upper_sphere(-q)):
                bad.append(f"q and -q in the same half: {q.tolist()}")
            if not np.array_equal(U.find_inverse_quaternion(q), -q):
                bad.append("find_inverse_quaternion")
        return {"reproduced": bool(bad), "detail": str(bad[:4])}
    if s["kind"] == "hemi":
        N = s["N"]
        sets = [np.array([[fval(model, f"q{i}_{k}", float(rng.choice([-0.5, 0.0, 0.5, 0.7]))) for k in range(4)] for i in range(N)])]
        sets += [np.array(v, dtype=float).reshape(N, 4) for v in itertools.islice(itertools.product((-0.5, 0.0, 0.5), repeat=4 * N), 0, 3 ** (4 * N), max(1, 3 ** (4 * N) // 400))]
        for Q in sets:
            if np.any(np.all(Q == 0, axis=1)):
                continue
            given = np.array(Q, dtype=float)
            out = U.hemisphere_quaternion_set(given, upper=s["upper"])
            for i in range(N):
                exp = Q[i] if _canon_f(Q[i]) == s["upper"] else -Q[i]
                if out.shape != (N, 4) or not np.array_equal(out[i], exp):
                    bad.append(f"hemisphere_quaternion_set({Q.tolist()}, upper={s['upper']}) row {i}")
        return {"reproduced": bool(bad), "detail": str(bad[:3])}
    N = s["N"]
    G = np.array([[fval(model, f"g{i}_{k}", None) or 0.0 for k in range(4)] for i in range(N)])
    if not model:
        G = np.abs(rng.normal(size=(N, 4))) + 0.1
        G /= np.linalg.norm(G, axis=1)[:, None]
        if not s["unit"]:
            G = np.array([[1.01, 0.0, 0.0, 0.0]])

    class Inert:
        def __init__(self, *a, **k):
            pass

    class ConcGrid(RO.SphereGrid4Dim):
        algorithm_name = "cube4D"

        def _gen_grid(self):
            self.grid = G.copy()
            return super()._gen_grid()
    old = RO.HalfRotobjVoronoi
    RO.HalfRotobjVoronoi = Inert
    try:
        with contextlib.redirect_stdout(io.StringIO()):
            if s.get("history"):
                rows3 = np.array([[(-1.0) ** (i + 1) * 0.6, 0.0, 0.8] for i in range(2 * N)])

                class Dir(RO.SphereGrid3Dim):
                    algorithm_name = "ico"

                    def _gen_grid(self):
                        return rows3.copy()
                oldf = RO.RotobjVoronoi
                RO.RotobjVoronoi = Inert
                try:
                    d3 = Dir(N=2 * N)
                    d3.gen_grid()
                    d3.get_grid_as_array(only_upper=True)
                finally:
                    RO.RotobjVoronoi = oldf
            g = ConcGrid(N=N)
            try:
                g.gen_grid()
            except AssertionError as e:
                return {"reproduced": s["unit"], "detail": f"gen_grid raised AssertionError {e} for rows of norm {np.linalg.norm(G, axis=1).tolist()}"}
            if not s["unit"]:
                return {"reproduced": True, "detail": "non-unit row accepted"}
            if s.get("history"):
                U.hemisphere_quaternion_set(g.get_grid_as_array(only_upper=False))
                U.hemisphere_quaternion_set(g.get_grid_as_array(only_upper=False), upper=False)
            full, half = g.get_grid_as_array(only_upper=False), g.get_grid_as_array()
            if full.shape != (2 * N, 4) or not np.array_equal(full[:N], G) or not np.array_equal(full[N:], -G):
                bad.append("full array is not [G; -G]")
            if half.shape != (N, 4) or not np.array_equal(half, G):
                bad.append("only_upper does not return G")
            if list(g.get_upper_indices()) != list(range(N)) or g.get_N() != N:
                bad.append("upper indices / N")
    finally:
        RO.HalfRotobjVoronoi = old
    return {"reproduced": bool(bad), "detail": str(bad)}


def finding_key(cex):
    return f"C07:{cex['shape']['kind']}{':history' if cex['shape'].get('history') else ''}:{cex['obligation'].split('[')[0]}"


def generator_contract():
    """The `double` shapes stand on a contract for the concrete generators ("the generator installs N canonical unit rows"); the generators
    themselves are concrete runs with nothing to quantify over (outside the claim).  The contract is re-checked here on a few small real
    grids on every run; a generator that breaks it makes the run a HARNESS ERROR (exit 2) -- the symbolic result would rest on a false
    assumption -- not a verdict of the solver."""
    import contextlib, io
    import molgri.space.rotobj as RO
    n = 0
    with contextlib.redirect_stdout(io.StringIO()):
        for alg, Ns in (("cube4D", (4, 9, 17, 40)), ("randomQ", (5, 20)), ("fulldiv", (8, 40)), ("zero4D", (1,))):
            for N in Ns:
                g = RO.SphereGrid4DFactory.create(alg, N)
                half, full = g.get_grid_as_array(), g.get_grid_as_array(only_upper=False)
                assert half.shape == (N, 4) and full.shape == (2 * N, 4), (alg, N, "shapes")
                assert all(_canon_f(list(row)) for row in half), (alg, N, "a row of the half grid is not in the canonical half")
                assert np.array_equal(full[:N], half) and np.array_equal(full[N:], -half), (alg, N, "the double cover is not [G; -G]")
                assert np.allclose(np.linalg.norm(half, axis=1), 1.0, atol=1e-8), (alg, N, "rows are not unit quaternions")
                assert len({tuple(np.round(r, 9)) for r in half}) == N, (alg, N, "rows are not pairwise distinct")
                n += 1
    return n


DEFERRED_ERRORS = []


def selftest(seed):
    # a generator that breaks the contract is reported AFTER the exploration: if the solver confirms a violation (the `halfsel` shapes run
    # the half selection itself) that is the verdict; otherwise the run is a harness error -- never a pass
    del DEFERRED_ERRORS[:]
    n = 0
    try:
        n = generator_contract()
    except Exception:  # noqa: BLE001
        import traceback
        DEFERRED_ERRORS.append("contract of the concrete generators broken (the `double` shapes assume it):\n" + traceback.format_exc()[-1500:])
    for v in itertools.product((-1.0, 0.0, 1.0), repeat=3):
        s = z3.Solver()
        q = [z3.RealVal(str(x)) for x in v]
        s.add(canonical(q) != z3.BoolVal(_canon_f(v)))
        assert s.check() == z3.unsat
        n += 1
    return n
